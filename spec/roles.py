"""Roles of private state fields.

The rules talk about the private state of a handful of helper types ("the byte store of Sdt", "the element
counter of PackageBuilder", "the offset counter of VIOT").  A private field's *name* is not part of any
property, so the rules must not depend on it: each role is identified by the field's type inside its
struct, and the fact loader renames the field to the canonical role name everywhere (struct definition,
field projections, struct literals, patterns).  A struct in which a role cannot be identified uniquely
keeps its names; rules then fail closed on the missing canonical name."""

INT = ('u8', 'u16', 'u32', 'u64', 'usize')
VEC_U8 = ('alloc::vec::Vec<u8>',)

# adt path -> [(canonical role name, admissible field types)]
ROLES = {
    'Checksum': [('value', ('u8',))],
    'sdt::Sdt': [('data', VEC_U8)],
    'aml::PackageBuilder': [('data', VEC_U8), ('elements', INT)],
    'aml::EISAName': [('value', ('u32',))],
    'aml::Name': [('data', VEC_U8)],
    'aml::Path': [('root', ('bool',)), ('name_parts', ('alloc::vec::Vec<[u8; 4]>',))],
    'slit::SLIT': [('entries', VEC_U8), ('localities', INT)],
    'hmat::SystemLocality': [('entries', ('alloc::vec::Vec<u16>',))],
    'pptt::PPTT': [('handle_offset', INT)],
    'rhct::RHCT': [('handle_offset', INT)],
    'rimt::RIMT': [('handle_offset', INT)],
    'viot::VIOT': [('handle_offset', INT)],
}

def is_vec(ty): return ty.startswith('alloc::vec::Vec<')

def vector_roles():
    """the entry / element vectors the layout specification names (spec/layouts.py VECTORS, ENTRY_VECTORS): in a struct
    with exactly one private Vec field that field is the vector, whatever it is called"""
    import layouts as L
    out = {}
    pairs = [(k[0], v) for k, v in L.VECTORS.items()] + list(L.ENTRY_VECTORS.items())
    for ty, path in pairs:
        parts = path.split('.')
        if len(parts) != 2 or parts[0] != 'self': continue
        if any(c == parts[1] for c, _ in ROLES.get(ty, [])): continue
        out.setdefault(ty, [])
        if (parts[1], is_vec) not in out[ty]: out[ty].append((parts[1], is_vec))
    return out
