"""AML grammar productions (ACPI 6.5 ch. 20) for every constructor the crate exports.

Each entry maps an `impl Aml` type to (constructor, production).  The production is a list of items
in emission order, written in terms of the *constructor's parameter names*:
  ('op', b)            an opcode / constant byte
  ('pkglen',)          a self-inclusive PkgLength that covers everything after it to the end of the object
  ('name', p)          the NameString of Path parameter p
  ('term', p)          one child object (parameter p: &dyn Aml), contiguous, unmodified
  ('terms', p)         the children of Vec parameter p, in order
  ('u8'|'u16'|'u32'|'u64', fn)   a little-endian integer whose value is fn(P) (P maps parameter names to terms)
  ('raw', p, n)        n raw bytes of parameter p
  ('fieldlist', p)     field-list entries: NameSeg(4) PkgLength(width, exclusive) | 00 PkgLength(width, exclusive)
  ('integer', fn)      the C08 integer encoding of fn(P)
ctor None means the type is built by struct literal / has public fields: the production is then
written over `self.<field>` names.
"""
from sym import *

def P_(name): return ('a', name)
def discr(name): return ('discr', ('a', name))

OPS2 = {'Add': 0x72, 'Concat': 0x73, 'Subtract': 0x74, 'Multiply': 0x77, 'ShiftLeft': 0x79, 'ShiftRight': 0x7a,
        'And': 0x7b, 'Nand': 0x7c, 'Or': 0x7d, 'Nor': 0x7e, 'Xor': 0x7f, 'ConcatRes': 0x84, 'Mod': 0x85, 'Index': 0x88,
        'ToString': 0x9c, 'CreateDWordField': 0x8a, 'CreateQWordField': 0x8f}
OPS1 = {'ObjectType': 0x8e, 'SizeOf': 0x87, 'Return': 0xa4, 'DeRefOf': 0x83}
CONV = {'ToBuffer': 0x96, 'ToInteger': 0x99}
CMP = {'Equal': [0x93], 'LessThan': [0x95], 'GreaterThan': [0x94], 'NotEqual': [0x92, 0x93], 'GreaterEqual': [0x92, 0x95], 'LessEqual': [0x92, 0x94]}

PRODUCTIONS = {
    'aml::Zero': (None, [('op', 0x00)]),
    'aml::One': (None, [('op', 0x01)]),
    'aml::Ones': (None, [('op', 0xff)]),
    'aml::Package': ('new', [('op', 0x12), ('pkglen',), ('u8', lambda P: ('len', P_('children'))), ('terms', 'children')]),
    'aml::VarPackageTerm': ('new', [('op', 0x13), ('pkglen',), ('term', 'data')]),
    'aml::BufferTerm': ('new', [('op', 0x11), ('pkglen',), ('term', 'data')]),
    'aml::BufferData': ('new', [('op', 0x11), ('pkglen',), ('integer', lambda P: ('len', P_('data'))), ('raw', 'data', None)]),
    'aml::Device': ('new', [('op', 0x5b), ('op', 0x82), ('pkglen',), ('name', 'path'), ('terms', 'children')]),
    'aml::Scope': ('new', [('op', 0x10), ('pkglen',), ('name', 'path'), ('terms', 'children')]),
    'aml::Method': ('new', [('op', 0x14), ('pkglen',), ('name', 'path'),
                            ('u8', lambda P: bor(band(P_('args'), C(7)), scale(P_('serialized'), 8))), ('terms', 'children')]),
    'aml::PowerResource': ('new', [('op', 0x5b), ('op', 0x84), ('pkglen',), ('name', 'name'), ('u8', lambda P: P_('level')), ('u16', lambda P: P_('order')), ('terms', 'children')]),
    'aml::Field': ('new', [('op', 0x5b), ('op', 0x81), ('pkglen',), ('name', 'path'),
                           ('u8', lambda P: bor(bor(discr('access_type'), scale(discr('lock_rule'), 16)), scale(discr('update_rule'), 32))),
                           ('fieldlist', 'fields')]),
    'aml::OpRegion': ('new', [('op', 0x5b), ('op', 0x80), ('name', 'path'), ('u8', lambda P: discr('space')), ('term', 'offset'), ('term', 'length')]),
    'aml::Mutex': ('new', [('op', 0x5b), ('op', 0x01), ('name', 'path'), ('u8', lambda P: P_('sync_level'))]),
    'aml::Acquire': ('new', [('op', 0x5b), ('op', 0x23), ('name', 'mutex'), ('u16', lambda P: P_('timeout'))]),
    'aml::Release': ('new', [('op', 0x5b), ('op', 0x27), ('name', 'mutex')]),
    'aml::If': ('new', [('op', 0xa0), ('pkglen',), ('term', 'predicate'), ('terms', 'if_children')]),
    'aml::Else': ('new', [('op', 0xa1), ('pkglen',), ('terms', 'body')]),
    'aml::While': ('new', [('op', 0xa2), ('pkglen',), ('term', 'predicate'), ('terms', 'while_children')]),
    'aml::Store': ('new', [('op', 0x70), ('term', 'value'), ('term', 'name')]),
    'aml::Notify': ('new', [('op', 0x86), ('term', 'object'), ('term', 'value')]),
    'aml::CreateField': ('new', [('op', 0x5b), ('op', 0x13), ('term', 'source'), ('term', 'bit_index'), ('term', 'bit_num'), ('term', 'name_string')]),
    'aml::Mid': ('new', [('op', 0x9e), ('term', 'source'), ('term', 'index'), ('term', 'length'), ('term', 'result')]),
    'aml::MethodCall': ('new', [('name', 'name'), ('terms', 'args')]),
    'aml::Arg': (None, [('u8', lambda P: add(C(0x68), P_('self.0')))]),
    'aml::Local': (None, [('u8', lambda P: add(C(0x60), P_('self.0')))]),
    'aml::Name': ('new', [('op', 0x08), ('name', 'path'), ('term', 'inner')]),
}
for n, op in OPS2.items():
    PRODUCTIONS['aml::' + n] = ('new', [('op', op), ('term', 'a'), ('term', 'b'), ('term', 'target')])
for n, op in OPS1.items():
    PRODUCTIONS['aml::' + n] = ('new', [('op', op), ('term', 'a')])
for n, op in CONV.items():
    PRODUCTIONS['aml::' + n] = ('new', [('op', op), ('term', 'a'), ('term', 'target')])
for n, ops in CMP.items():
    PRODUCTIONS['aml::' + n] = ('new', [('op', o) for o in ops] + [('term', 'left'), ('term', 'right')])

# strings share one production: StringPrefix bytes NullChar
STRING = [('op', 0x0d), ('raw', 'self', None), ('op', 0x00)]

# guards the specification requires of Arg / Local
GUARDS = {'aml::Arg': ('self.0', 6), 'aml::Local': ('self.0', 7)}

# types of aml.rs handled by other properties (C08 integers, C09 Path, C10 descriptors, C15 builder, C16 EISA/UUID)
ELSEWHERE = {'aml::Path': 'C09', 'u8': 'C08', 'u16': 'C08', 'u32': 'C08', 'u64': 'C08', 'usize': 'C08',
             'aml::EISAName': 'C16', 'aml::Uuid': 'C16', 'aml::PackageBuilder': 'C15',
             'aml::ResourceTemplate': 'C10', 'aml::Memory32Fixed': 'C10', 'aml::AddressSpace<u16>': 'C10', 'aml::AddressSpace<u32>': 'C10',
             'aml::AddressSpace<u64>': 'C10', 'aml::IO': 'C10', 'aml::Interrupt': 'C10', 'aml::Register': 'C10',
             "&'static str": 'C06-string', 'alloc::string::String': 'C06-string'}
