"""Static-table layouts (the oracle of C03 / C04), written from ACPI 6.5 ch. 5 & 18, CXL 3.0 9.17 (CEDT),
TCG ACPI (TCPA/TPM2), SPCR rev 4, RISC-V RHCT / RQSC / RIMT, ACPI VIOT.

A structure is a list of items in image order; an item is
    (width, value, tag)          little-endian integer field      u8/u16/u32/u64(...)
    ('raw', value, n, tag)       n raw bytes                      raw(...)
    ('arr', name, count, items)  `count` repetitions of `items`   arr(...)   (element fields use 'name[i]...')
    ('opt', cond, items, else)   present under a condition        opt(...)
`value` is an int constant, a string naming a constructor parameter (or 'a.b' path into it), or a
function P -> term for derived values.  Tags: 'type', 'len' (length-of-self), 'tablelen', 'checksum',
'count:<arr>', 'offset:<arr>', 'handle', 'reserved', ('setter', field) for fields that only a setter
fills (0 after the constructor; the setter's field must sit at this place).
SOURCE marks where the entry comes from: 'spec' = specification text, 'pinned' = no authoritative text at
hand (RIMT draft): today's value is the reference for later changes.
"""
from sym import *

def A_(n): return ('a', n)
def discr(n): return ('discr', ('a', n))
def isv(n, v): return ('isvar', ('a', n), v)
def optv(n, d=0): return ite(isv(n, 'Some'), A_(n + '.Some.0'), C(d))
def u8(v, tag=None): return (1, v, tag)
def u16(v, tag=None): return (2, v, tag)
def u32(v, tag=None): return (4, v, tag)
def u64(v, tag=None): return (8, v, tag)
def raw(v, n, tag=None): return ('raw', v, n, tag)
def arr(name, count, items): return ('arr', name, count, items)
def opt(cond, items, other=()): return ('opt', cond, list(items), list(other))
def setter(w, field): return (w, 0, ('setter', field))
def bdf(p): return lambda P: bor(bor(scale(A_(p + '.bus'), 256), scale(A_(p + '.device'), 8)), A_(p + '.function'))

def HDR(sig, rev):
    return [raw(sig, 4), u32(None, 'tablelen'), u8(rev), u8(None, 'checksum'), raw('oem_id', 6), raw('oem_table_id', 8), u32('oem_revision'), raw(b'RVAT', 4), raw(bytes([0, 0, 0, 1]), 4)]

GAS12 = lambda p: [u8(lambda P: discr(p + '.address_space_id')), u8(p + '.register_bit_width'), u8(p + '.register_bit_offset'), u8(lambda P: discr(p + '.access_size')), u64(p + '.address')]
GAS_DEFAULT = [u8(0), u8(0), u8(0), u8(0), u64(0)]

TABLES = {}     # type -> dict(ctor, fixed items after which entries follow, entries=[(add method, entry type)], source)
STRUCTS = {}    # (type, ctor) -> dict(items, table, source, size)

def T(ty, ctor, items, entries=(), source='spec', first_entry=None):
    TABLES[ty] = dict(ctor=ctor, items=items, entries=list(entries), source=source, first_entry=first_entry)
def S(ty, ctor, items, table=None, source='spec', size=None, self_view=False):
    STRUCTS[(ty, ctor)] = dict(items=items, table=table, source=source, size=size, self_view=self_view)

# ------------------------------------------------------------------ XSDT / MCFG
T('xsdt::XSDT', 'new', HDR(b'XSDT', 1), entries=[('add_entry', None)], first_entry=36)
T('mcfg::MCFG', 'new', HDR(b'MCFG', 1) + [u64(0, 'reserved')], entries=[('add_ecam', None)], first_entry=44)
# ------------------------------------------------------------------ MADT
T('madt::MADT', 'new', HDR(b'APIC', 1) + [u32(lambda P: ite(isv('int', 'Riscv'), C(0), A_('int.Address.0'))), u32(0)], entries=[('add_structure', None), ('add_imsic', 'madt::IMSIC')], first_entry=44)
S('madt::ProcessorLocalApic', 'new', [u8(0x00, 'type'), u8(8, 'len'), u8('uid'), u8('apic_id'), u32(lambda P: discr('enabled'))], 'MADT', size=8)
S('madt::IoApic', 'new', [u8(0x01, 'type'), u8(12, 'len'), u8('io_apic_id'), u8(0, 'reserved'), u32('io_apic_addr'), u32('gsi_base')], 'MADT', size=12)
S('madt::Gicc', 'new', [u8(0x0b, 'type'), u8(82, 'len'), u16(0, 'reserved'), setter(4, 'cpu_interface_number'), setter(4, 'acpi_processor_uid'),
    (4, lambda P: ite(isv('status', 'Enabled'), C(1), ite(isv('status', 'Disabled'), C(0), C(8))), ('setter', 'flags')), setter(4, 'parking_protocol_version'), setter(4, 'performance_interrupt'),
    setter(8, 'parked_address'), setter(8, 'base_address'), setter(8, 'virtual_registers'), setter(8, 'control_block_registers'), setter(4, 'maintenance_interrupt'),
    setter(8, 'redistributor_base'), setter(8, 'mpidr'), setter(1, 'power_efficiency_class'), u8(0, 'reserved'), setter(2, 'overflow_interrupt'), setter(2, 'trbe_interrupt')], 'MADT', size=82)
S('madt::Gicd', 'new', [u8(0x0c, 'type'), u8(24, 'len'), u16(0, 'reserved'), u32('gic_id'), u64('base_addr'), u32(0, 'reserved'), u8(lambda P: discr('version')), raw(bytes(3), 3, 'reserved')], 'MADT', size=24)
S('madt::GicMsi', 'new', [u8(0x0d, 'type'), u8(24, 'len'), u16(0, 'reserved'), setter(4, 'gic_msi_frame_id'), setter(8, 'base_addr'), setter(4, 'flags'), setter(2, 'spi_count'), setter(2, 'spi_base')], 'MADT', size=24)
S('madt::Gicr', 'new', [u8(0x0e, 'type'), u8(16, 'len'), u16(0, 'reserved'), u64('discovery_range_base'), u32('discovery_range_length')], 'MADT', size=16)
S('madt::GicIts', 'new', [u8(0x0f, 'type'), u8(20, 'len'), u16(0, 'reserved'), u32('gic_its_id'), u64('base_addr'), u32(0, 'reserved')], 'MADT', size=20)
S('madt::RINTC', 'new', [u8(0x18, 'type'), u8(36, 'len'), u8(1), u8(0, 'reserved'), u32(lambda P: discr('hart_status')), u64('mhartid'), u32('acpi_processor_uid'), u32('ext_int_ctrl_id'), u64('imsic_base_addr'), u32('imsic_size')], 'MADT', size=36)
S('madt::IMSIC', 'new', [u8(0x19, 'type'), u8(16, 'len'), u8(1), raw(bytes(5), 5, 'reserved'), u16('num_supervisor_interrupt_identities'), u16('num_guest_interrupt_identities'),
    u8('guest_index_bits'), u8('hart_index_bits'), u8('group_index_bits'), u8('group_index_shift')], 'MADT', size=16)
S('madt::APLIC', 'new', [u8(0x1a, 'type'), u8(36, 'len'), u8(1), u8('aplic_id'), u32(0), raw('hardware_id', 8), u16('number_of_idcs'), u16('total_external_interrupt_sources'),
    u32('global_system_interrupt_base'), u64('aplic_address'), u32('aplic_size')], 'MADT', size=36)
S('madt::PLIC', 'new', [u8(0x1b, 'type'), u8(36, 'len'), u8(1), u8('plic_id'), raw('hardware_id', 8), u16('total_external_interrupt_sources'), u16('max_priority'), u32(0),
    u32('plic_size'), u64('plic_address'), u32('global_system_interrupt_base')], 'MADT', size=36)
# ------------------------------------------------------------------ SRAT
T('srat::SRAT', 'new', HDR(b'SRAT', 1) + [u32(1, 'reserved'), u64(0, 'reserved')],
  entries=[('add_memory_affinity', 'srat::MemoryAffinity'), ('add_generic_initiator', 'srat::GenericInitiator'), ('add_rintc_affinity', 'srat::RintcAffinity')], first_entry=48)
S('srat::MemoryAffinity', 'new', [u8(1, 'type'), u8(40, 'len'), u32('proximity_domain'), u16(0, 'reserved'), u32(lambda P: band(A_('base_address'), C(0xffffffff))), u32(lambda P: shr(A_('base_address'), C(32))),
    u32(lambda P: band(A_('length'), C(0xffffffff))), u32(lambda P: shr(A_('length'), C(32))), u32(0, 'reserved'), setter(4, 'flags'), u64(0, 'reserved')], 'SRAT', size=40)
S('srat::GenericInitiator', 'new', [u8(5, 'type'), u8(32, 'len'), u8(0, 'reserved'), u8(lambda P: ite(isv('handle', 'Acpi'), C(0), C(1))), u32('proximity_domain'),
    opt(lambda P: isv('handle', 'Acpi'), [raw('handle.Acpi.hid', 8), raw('handle.Acpi.uid', 4), u32(0, 'reserved')],
        [u16('handle.Pci.segment'), u8('handle.Pci.bus'), u8(lambda P: bor(scale(A_('handle.Pci.device'), 8), A_('handle.Pci.function'))), u32(0, 'reserved'), u64(0, 'reserved')]),
    setter(4, 'flags'), u32(0, 'reserved')], 'SRAT', size=32)
# RINTC affinity per ACPI 6.5 table 5.60: type 7, length 20, reserved(2), proximity domain(4), processor uid(4), flags(4), clock domain(4)
S('srat::RintcAffinity', 'new', [u8(7, 'type'), u8(20, 'len'), u16(0, 'reserved'), u32(None, 'missing:proximity_domain'), raw('acpi_processor_uid', 4), setter(4, 'flags'), u32('clock_domain')], 'SRAT', size=20)
# ------------------------------------------------------------------ SLIT
T('slit::SLIT', 'new', HDR(b'SLIT', 1) + [u64('localities', 'count:cells'), ('fill', 'cells', lambda P: mul(A_('localities'), A_('localities')), [u8(10)])], entries=[], first_entry=44)
# ------------------------------------------------------------------ HMAT
T('hmat::HMAT', 'new', HDR(b'HMAT', 1) + [u32(0, 'reserved')],
  entries=[('add_memory_proximity', 'hmat::MemoryProximityDomain'), ('add_system_locality', 'hmat::SystemLocality'), ('add_memory_side_cache', 'hmat::MemorySideCache')], first_entry=40)
S('hmat::MemoryProximityDomain', 'new', [u16(0, 'type'), u16(0, 'reserved'), u32(40, 'len'), u16(1), u16(0, 'reserved'), u32('proximity_domain_initiator'), u32('proximity_domain_memory'), raw(bytes(20), 20, 'reserved')], 'HMAT', size=40)
S('hmat::SystemLocality', 'new', [u16(1, 'type'), u16(0, 'reserved'), u32(lambda P: add(add(add(C(32), scale(A_('num_initiators'), 4)), scale(A_('num_targets'), 4)), scale(mul(A_('num_initiators'), A_('num_targets')), 2)), 'len'),
    (1, lambda P: discr('loc_type'), ('setter', 'flags')), u8(lambda P: discr('data_type')), u8(lambda P: discr('min_transfer_size')), u8(0, 'reserved'),
    u32('num_initiators', 'count:initiators'), u32('num_targets', 'count:targets'), u32(0, 'reserved'), u64('entry_base_unit'),
    ('fill', 'initiators', 'num_initiators', [u32(0)]), ('fill', 'targets', 'num_targets', [u32(0)]), ('fill', 'entries', lambda P: mul(A_('num_initiators'), A_('num_targets')), [u16(0xffff)])], 'HMAT')
S('hmat::MemorySideCache', 'new', [u16(2, 'type'), u16(0, 'reserved'), u32(32, 'len'), u32('proximity_domain'), u32(0, 'reserved'), u64('cache_size'),
    u32(lambda P: bor(bor(bor(bor(discr('total_cache_levels'), scale(discr('this_cache_level'), 16)), scale(discr('associativity'), 256)), scale(discr('write_policy'), 4096)), scale(A_('cacheline_size'), 65536))),
    u16(0, 'reserved'), u16(0, 'count:smbios_handles')], 'HMAT')
# ------------------------------------------------------------------ PPTT
T('pptt::PPTT', 'new', HDR(b'PPTT', 1), entries=[('add_processor', 'pptt::ProcessorNode'), ('add_cache', 'pptt::CacheNode')], first_entry=36)
S('pptt::ProcessorNode', 'new', [u8(0, 'type'), u8(20, 'len'), u16(0, 'reserved'), setter(4, 'flags'), u32(lambda P: ite(isv('parent', 'Some'), A_('parent.Some.0.0'), C(0)), 'handle'), u32('acpi_processor_id'), u32(0, 'count:resources')], 'PPTT')
# cache nodes are only produced by CacheNodeBuilder::to_node: written over the builder's fields
S('pptt::CacheNode', 'pptt::CacheNodeBuilder::to_node', [u8(1, 'type'), u8(28, 'len'), u16(0, 'reserved'), u32('self.flags'), u32('self.next_level', 'handle'), u32('self.size'), u32('self.set_count'),
    u8('self.associativity'), u8('self.attributes'), u16('self.line_size'), u32('self.id')], 'PPTT', size=28)
# ------------------------------------------------------------------ RHCT
T('rhct::RHCT', 'new', HDR(b'RHCT', 1) + [u32(0, 'reserved'), u64('timebase_frequency'), u32(0, 'count:nodes'), u32(56, 'offset:nodes')],
  entries=[('add_isa_string', 'rhct::IsaStringNode'), ('add_cmo', 'rhct::CmoNode'), ('add_mmu_node', 'rhct::MmuNode'), ('add_hart_info', 'rhct::HartInfoNode')], first_entry=56)
S('rhct::CmoNode', 'new', [u16(1, 'type'), u16(10, 'len'), u16(1), u8(0, 'reserved'), u8('cbom_block_size_pow2'), u8('cbop_block_size_pow2'), u8('cboz_block_size_pow2')], 'RHCT', size=10)
S('rhct::MmuNode', 'new', [u16(2, 'type'), u16(8, 'len'), u16(1), u8(0, 'reserved'), u8(lambda P: discr('scheme'))], 'RHCT', size=8)
S('rhct::HartInfoNode', 'new', [u16(0xffff, 'type'), u16(16, 'len'), u16(1), u16(1, 'count:handles'), u32('processor_uid'), u32('handle.0', 'handle')], 'RHCT')
S('rhct::IsaStringNode', 'new', [u16(0, 'type'), u16(lambda P: ite(cmp('eq', rem(add(('len', A_('string')), C(1)), C(2)), ZERO), add(('len', A_('string')), C(9)), add(('len', A_('string')), C(10))), 'len'), u16(1),
    u16(lambda P: add(('len', A_('string')), C(1)), 'strlen'), ('rawvar', 'string'), u8(0), opt(lambda P: cmp('eq', rem(add(('len', A_('string')), C(1)), C(2)), ONE), [u8(0)])], 'RHCT')
# ------------------------------------------------------------------ RIMT (pinned to the crate's golden tests: draft specification)
T('rimt::RIMT', 'new', HDR(b'RIMT', 1) + [u32(0, 'count:devices'), u32(48, 'offset:devices'), u32(0, 'reserved')],
  entries=[('add_iommu', 'rimt::Iommu'), ('add_pcie_root_complex', 'rimt::PcieRootComplex'), ('add_platform', 'rimt::Platform')], source='pinned', first_entry=48)
nwires = lambda P: ite(isv('int_wires', 'Some'), ('len', A_('int_wires.Some.0')), C(0))
nmaps = lambda P: ite(isv('id_mappings', 'Some'), ('len', A_('id_mappings.Some.0')), C(0))
def wire_items(e): return [u32(e + '.num'), u16(lambda P: bor(A_(e + '.level_trig'), scale(A_(e + '.polarity_high'), 2))), u16(e + '.aplic_id')]
def map_items(e): return [u32(e + '.src_id'), u32(e + '.dst_id'), u32(e + '.num_ids'), u32(e + '.dst_iommu_offset.0', 'handle'),
                          u32(lambda P: bor(bor(A_(e + '.ats'), scale(A_(e + '.pri'), 2)), scale(A_(e + '.rciep'), 4)))]
S('rimt::Iommu', 'new', [u8(0, 'type'), u8(1), u16(lambda P: add(C(32), scale(nwires(P), 8)), 'len'), u16('id'), u16(0), u64(lambda P: optv('base_addr')),
    u32(lambda P: bor(ite(isv('pci_device', 'Some'), C(1), C(0)), ite(isv('proximity_domain', 'Some'), C(2), C(0)))),
    u16(lambda P: ite(isv('pci_device', 'Some'), A_('pci_device.Some.0.segment'), C(0))), u16(lambda P: ite(isv('pci_device', 'Some'), bdf('pci_device.Some.0')(P), C(0))),
    u32(lambda P: optv('proximity_domain')), u16(nwires, 'count:wires'), u16(32, 'offset:wires'),
    opt(lambda P: isv('int_wires', 'Some'), [arr('int_wires.Some.0', lambda P: ('len', A_('int_wires.Some.0')), wire_items('int_wires.Some.0[i]'))])], 'RIMT', source='pinned')
S('rimt::PcieRootComplex', 'new', [u8(1, 'type'), u8(1), u16(lambda P: add(C(16), scale(nmaps(P), 20)), 'len'), u16('id'), u16('pci_segment'), u32(lambda P: bor(A_('ats'), scale(A_('pri'), 2))),
    u16(16, 'offset:maps'), u16(nmaps, 'count:maps'), opt(lambda P: isv('id_mappings', 'Some'), [arr('id_mappings.Some.0', lambda P: ('len', A_('id_mappings.Some.0')), map_items('id_mappings.Some.0[i]'))])], 'RIMT', source='pinned')
S('rimt::Platform', 'new', [u8(2, 'type'), u8(1), u16(lambda P: add(add(C(13), ('len', A_('name'))), scale(nmaps(P), 20)), 'len'), u16('id'), u16(0, 'reserved'),
    u16(lambda P: add(C(13), ('len', A_('name'))), 'offset:maps'), u16(nmaps, 'count:maps'), ('rawvar', 'name'), u8(0),
    opt(lambda P: isv('id_mappings', 'Some'), [arr('id_mappings.Some.0', lambda P: ('len', A_('id_mappings.Some.0')), map_items('id_mappings.Some.0[i]'))])], 'RIMT', source='pinned')
# ------------------------------------------------------------------ VIOT
T('viot::VIOT', 'new', HDR(b'VIOT', 1) + [u16(0, 'count:nodes'), u16(48, 'offset:nodes'), u64(0, 'reserved')],
  entries=[('add_pci_range', 'viot::PciRange'), ('add_mmio_endpoint', 'viot::MmioEndpoint'), ('add_virtio_pci_iommu', 'viot::VirtIoPciIommu'), ('add_virtio_mmio_iommu', 'viot::VirtIoMmioIommu')], first_entry=48)
S('viot::PciRange', 'new', [u8(1, 'type'), u8(0, 'reserved'), u16(24, 'len'), u32(bdf('first')), u16('first.segment'), u16('last.segment'), u16(bdf('first')), u16(bdf('last')),
    u16('translation_handle.0', 'handle'), u16(0, 'reserved'), u32(0, 'reserved')], 'VIOT', size=24)
S('viot::MmioEndpoint', 'new', [u8(2, 'type'), u8(0, 'reserved'), u16(24, 'len'), u32('endpoint_id'), u64('base_addr'), u16('translation_handle.0', 'handle'), u16(0, 'reserved'), u32(0, 'reserved')], 'VIOT', size=24)
S('viot::VirtIoPciIommu', 'new', [u8(3, 'type'), u8(0, 'reserved'), u16(16, 'len'), u16('device.segment'), u16(bdf('device')), u64(0, 'reserved')], 'VIOT', size=16)
S('viot::VirtIoMmioIommu', 'new', [u8(4, 'type'), u8(0, 'reserved'), u16(16, 'len'), u32(0, 'reserved'), u64('base_addr')], 'VIOT', size=16)
# ------------------------------------------------------------------ CEDT
T('cedt::CEDT', 'new', HDR(b'CEDT', 1), entries=[('add_host_bridge', 'cedt::CxlHostBridge'), ('add_fixed_memory', 'cedt::CxlFixedMemory'), ('add_xor_interleave_math', 'cedt::XorInterleaveMath'), ('add_port_association', 'cedt::PortAssociation')], first_entry=36)
S('cedt::CxlHostBridge', 'new', [u8(0, 'type'), u8(0, 'reserved'), u16(32, 'len'), u32('host_bridge_uid'), u32(lambda P: discr('cxl_version')), u32(0, 'reserved'), u64('port_base'),
    u64(lambda P: ite(isv('cxl_version', 'Cxl1_1'), C(0x2000), C(0x10000)))], 'CEDT', size=32)
sways = lambda P: ite(isv('self.interleave_ways', 'Ways1'), C(1), ite(isv('self.interleave_ways', 'Ways2'), C(2), ite(isv('self.interleave_ways', 'Ways4'), C(4), ite(isv('self.interleave_ways', 'Ways8'), C(8),
    ite(isv('self.interleave_ways', 'Ways16'), C(16), ite(isv('self.interleave_ways', 'Ways3'), C(3), ite(isv('self.interleave_ways', 'Ways6'), C(6), C(12))))))))
# a CFMWS is only serialisable once all its targets were added (the serialiser asserts it): written over the receiver's fields
S('cedt::CxlFixedMemory', None, [u8(1, 'type'), u8(0, 'reserved'), u16(lambda P: add(C(36), scale(sways(P), 4)), 'len'), u32(0, 'reserved'), u64('self.base_addr'), u64('self.size'), u8(lambda P: discr('self.interleave_ways')),
    u8(lambda P: discr('self.interleave_arithmetic')), u16(0, 'reserved'), u32(lambda P: discr('self.interleave_granularity')), u16('self.window_restrictions'), u16('self.qtg_id'),
    arr('self.interleave_targets', lambda P: ('len', A_('self.interleave_targets')), [('raw', 'self.interleave_targets[i]', 4, None)])], 'CEDT', self_view=True)
S('cedt::XorInterleaveMath', 'new', [u8(2, 'type'), u8(0, 'reserved'), u16(8, 'len'), u16(0, 'reserved'), u8(lambda P: discr('granularity')), u8(0, 'count:bitmaps')], 'CEDT')
# RDPAS per CXL 3.0 table 9-25: type 3, reserved, record length 10h, segment(2), BDF(2), protocol(1), base(8)  [17 bytes of fields]
S('cedt::PortAssociation', 'new', [u8(3, 'type'), u8(0, 'reserved'), u16(16, 'len'), u16('segment'), u16(lambda P: bor(bor(scale(A_('bus'), 256), scale(A_('device'), 8)), A_('function'))),
    u8(lambda P: discr('protocol')), u64('base_addr')], 'CEDT', size=17)
# ------------------------------------------------------------------ HEST
T('hest::HEST', 'new', HDR(b'HEST', 1) + [u32(0, 'count:sources')], entries=[('add_structure', None)], first_entry=40)
def AER(t, ctor_global, extra):
    common = lambda flags, dev: [u16(t, 'type'), setter(2, 'source_id'), u16(0, 'reserved'), u8(flags), setter(1, 'enabled'), setter(4, 'num_records'), setter(4, 'max_sections'),
        u32((lambda P: A_('device.bus')) if dev else 0), u16((lambda P: A_('device.device')) if dev else 0), u16((lambda P: A_('device.function')) if dev else 0),
        setter(2, 'device_control'), u16(0, 'reserved'), setter(4, 'uncorrectable_error_mask'), setter(4, 'uncorrectable_error_severity'), setter(4, 'correctable_error_mask'), setter(4, 'aer_cap_ctrl')] + [setter(4, x) for x in extra]
    return common
for ty, t, dev_ctor, extra, size in (('hest::PcieAerRootPort', 6, 'new_root_port', ['root_error_command'], 48), ('hest::PcieAerDevice', 7, 'new_root_port', [], 44),
                                     ('hest::PcieAerBridge', 8, 'new_bridge', ['secondary_uncorrectable_error_mask', 'secondary_uncorrectable_error_severity', 'secondary_aer_cap_ctrl'], 56)):
    S(ty, 'new_global', AER(t, True, extra)(2, False), 'HEST', size=size)
    S(ty, dev_ctor, AER(t, False, extra)(lambda P: discr('ff'), True), 'HEST', size=size)
NOTIF_DEFAULT = [u8(0, 'type'), u8(28, 'len'), u16(0), u32(0), u32(0), u32(0), u32(0), u32(0), u32(0)]
GHES = [u16(9, 'type'), u16('source_id'), u16(0xffff), u8(0, 'reserved'), u8(lambda P: discr('enabled')), setter(4, 'num_records'), setter(4, 'max_sections'), setter(4, 'max_raw_length')] + \
       [(w, v, ('setter-struct', 'error_status_address')) for (w, v, _) in GAS_DEFAULT] + [(w, v, ('setter-struct', 'notification') if i != 1 else 'len:notification') for i, (w, v, _) in enumerate(NOTIF_DEFAULT)] + [setter(4, 'error_status_block_len')]
S('hest::GenericHardwareSource', 'new', GHES, 'HEST', size=64)
S('hest::GenericHardwareSourceV2', 'new', [u16(10, 'type')] + GHES[1:] + [(w, v, ('setter-struct', 'read_ack_register')) for (w, v, _) in GAS_DEFAULT] + [setter(8, 'read_ack_preserve'), setter(8, 'read_ack_write')], 'HEST', size=92)
S('hest::NotificationStructure', 'new', [u8(lambda P: discr('type'), 'type'), u8(28, 'len'), setter(2, 'conf_write_en'), setter(4, 'poll_interval_ms'), setter(4, 'vector'), setter(4, 'polling_threshold_value'),
    setter(4, 'polling_threshold_window_ms'), setter(4, 'error_threshold_value'), setter(4, 'error_threshold_window_ms')], None, size=28)
# ------------------------------------------------------------------ RQSC
T('rqsc::RQSC', 'new', HDR(b'RQSC', 1) + [u32(0, 'count:controllers')], entries=[('add_controller', 'rqsc::QoSController')], first_entry=40)
S('rqsc::QoSController', 'new', [u8(lambda P: discr('controller_type'), 'type'), u8(0, 'reserved'), u16(28, 'len')] + GAS12('register_interface_address') + [u32('rcid_count'), u32('mcid_count'), u16('controller_flags'), u16(0, 'count:resources')], 'RQSC')
R = 'resource_id'
rid_type = lambda P: ite(isv(R, 'Cache'), C(0), ite(isv(R, 'MemoryAffinityStructure'), C(1), ite(isv(R, 'ACPIDevice'), C(2), ite(isv(R, 'PCIDevice'), C(3), A_(R + '.VendorSpecific.0')))))
rid_len = lambda P: ite(isv(R, 'Cache'), C(12), ite(isv(R, 'MemoryAffinityStructure'), C(20), ite(isv(R, 'ACPIDevice'), C(12), ite(isv(R, 'PCIDevice'), C(12), ('len', A_(R + '.VendorSpecific.1'))))))
S('rqsc::ResourceStructure', 'new', [u8(lambda P: discr('resource_type'), 'type'), u8(0, 'reserved'), u16(lambda P: add(C(8), rid_len(P)), 'len'), u16('resource_flags'), u8(0, 'reserved'), u8(rid_type),
    opt(lambda P: isv(R, 'Cache'), [u32(R + '.Cache.0.cache_id'), u32(R + '.Cache.0._reserved_resource_id_1'), u32(R + '.Cache.0._reserved_resource_id_2')],
     [opt(lambda P: isv(R, 'MemoryAffinityStructure'), [u32(R + '.MemoryAffinityStructure.0.proximity_domain'), u32(R + '.MemoryAffinityStructure.0._reserved_resource_id_1'), u32(R + '.MemoryAffinityStructure.0._reserved_resource_id_2'), u64(R + '.MemoryAffinityStructure.0.raw_bandwidth_per_block')],
      [opt(lambda P: isv(R, 'ACPIDevice'), [u64(R + '.ACPIDevice.0.acpi_hardware_id'), u32(R + '.ACPIDevice.0.acpi_unique_id')],
       [opt(lambda P: isv(R, 'PCIDevice'), [u32(R + '.PCIDevice.0.bdf'), u32(R + '.PCIDevice.0._reserved_resource_id_1'), u32(R + '.PCIDevice.0._reserved_resource_id_2')],
        [('rawvar', R + '.VendorSpecific.1')])])])])], 'RQSC')
# resource identifiers built by their own constructors (RQSC table 3-5: Resource ID 1, Resource ID 2, resource specific data)
S('rqsc::CacheResource', 'new', [u32('cache_id'), u32(0, 'reserved'), u32(0, 'reserved')], None, size=12)
S('rqsc::MemoryAffinityStructureResource', 'new', [u32('proximity_domain'), u32(0, 'reserved'), u32(0, 'reserved'), u64('raw_bandwidth_per_block')], None, size=20)
S('rqsc::ACPIDeviceResource', 'new', [u64('acpi_hardware_id'), u32('acpi_unique_id')], None, size=12)
S('rqsc::PCIDeviceResource', 'new', [u32('bdf'), u32(0, 'reserved'), u32(0, 'reserved')], None, size=12)
# constructors of the structures that are compared through a symbolic receiver (self_view): which argument each field gets
# ('=name' the constructor argument of that name, a number the constant, 'empty' an empty vector)
CTOR_FIELDS = {
 ('cedt::CxlFixedMemory', 'new'): {'base_addr': '=base_addr', 'size': '=size', 'interleave_arithmetic': '=arithmetic', 'interleave_granularity': '=granularity',
                                   'interleave_ways': '=ways', 'window_restrictions': 0, 'qtg_id': '=qtg_id', 'interleave_targets': 'empty'},
 ('hest::GenericErrorData', 'new'): {'severity': '=severity', 'data': 'empty', 'revision': 0, 'validation': 0, 'flags': 0, 'error_data_length': 0},
 # element structures of the RIMT devices (the devices' own layouts above take them as given)
 ('rimt::IdMapping', 'new'): {'src_id': '=src_id', 'dst_id': '=dst_id', 'num_ids': '=num_ids', 'dst_iommu_offset': '=dst_iommu_offset', 'ats': '=ats', 'pri': '=pri', 'rciep': '=rciep'},
 ('rimt::InterruptWire', 'new'): {'num': '=num', 'level_trig': '=level_trig', 'polarity_high': '=polarity_high', 'aplic_id': '=aplic_id'},
 # PCI addresses taken as constructor arguments of other structures (their layouts read bus / device / function)
 ('hest::PciDevice', 'new'): {'bus': '=bus', 'device': '=device', 'function': '=function'},
 ('rimt::PciDevice', 'new'): {'segment': '=segment', 'bus': '=bus', 'device': '=device', 'function': '=function'},
 ('viot::PciDevice', 'new'): {'segment': '=segment', 'bus': '=bus', 'device': '=device', 'function': '=function'},
}
# ------------------------------------------------------------------ fixed tables
T('bert::BERT', 'new', HDR(b'BERT', 1) + [u32('error_region_length'), u64('error_region_base')])
T('spcr::SPCR', 'sbi', HDR(b'SPCR', 4) + [u8(0x15), raw(bytes(3), 3, 'reserved')] + GAS_DEFAULT + [u8(0), u8(0), u32(0), u8(0), u8(0), u8(0), u8(0), u8(0), u8(0), u16(0xffff), u16(0xffff), u8(0), u8(0), u8(0), u32(0), u8(0), u32(0), u32(0),
   u16(2, 'strlen:namespace'), u16(88, 'offset:namespace'), raw(b'.\x00', 2)])
T('tpm2::TpmClient1_2', 'new', HDR(b'TCPA', 2) + [u16(0), u32('log_area_min_len'), u64('log_area_start_addr')])
T('tpm2::TpmServer1_2', 'new', HDR(b'TCPA', 2) + [u16(1), u16(0, 'reserved'), u64(0), u64(0), raw(bytes([1, 2]), 2), u8(0), u8(0), u8(0), raw(bytes(3), 3, 'reserved'), u32(0)] + GAS_DEFAULT + [u32(0, 'reserved')] + GAS_DEFAULT + [u8(0), u8(0), u8(0), u8(0)])
T('tpm2::Tpm2', 'new', HDR(b'TPM2', 1) + [u16(lambda P: discr('platform_class')), u16(0, 'reserved'), u64('crb_or_fifo_base'), u32(lambda P: discr('start_method'))])
S('gas::GAS', 'new', [u8(lambda P: discr('address_space_id')), u8('register_bit_width'), u8('register_bit_offset'), u8(lambda P: discr('access_size')), u64('address')], None, size=12)
# ACPI 6.5 table 5.1, PCI Configuration space: address space id 2; the 64-bit address is  reserved(16) | device(16) | function(16) | register offset(16)
S('gas::GAS', 'new_pci_config', [u8(2), u8('register_bit_width'), u8(0), u8(lambda P: discr('access_size')),
    u64(lambda P: bor(bor(shl(A_('device'), C(32)), shl(A_('function'), C(16))), A_('register')))], None, size=12)
S('rsdp::Rsdp', 'new', [raw(b'RSD PTR ', 8), u8(None, 'checksum'), raw('oem_id', 6), u8(2), u32(0, 'reserved'), u32(36, 'len'), u64('xsdt_addr'), u8(None, 'checksum'), raw(bytes(3), 3, 'reserved')], None, size=36)
S('facs::FACS', 'new', [raw(b'FACS', 4), u32(64, 'len'), u32(0), u32(0), u32(0), u32(0), u64(0), u8(1), raw(bytes(3), 3, 'reserved'), u32(0), raw(bytes(24), 24, 'reserved')], None, size=64)

# ------------------------------------------------------------------ error records (standalone Aml objects, ACPI 18.3.2.7)
S('hest::GenericErrorStatus', 'new', [u32(lambda P: bor(ite(cmp('eq', A_('correctable_count'), ONE), C(2), ite(cmp('lt', ONE, A_('correctable_count')), C(8), C(0))),
                                                       ite(cmp('eq', A_('uncorrectable_count'), ONE), C(1), ite(cmp('lt', ONE, A_('uncorrectable_count')), C(4), C(0))))),
    u32(0), u32(0), u32(0), u32(lambda P: discr('severity'))], None)
S('hest::GenericErrorData', None, [raw('self.section_type', 16), u32(lambda P: discr('self.severity')), u16('self.revision'), u8('self.validation'), u8('self.flags'), u32('self.error_data_length'),
    raw('self.fru_id', 16), raw('self.fru_text', 20), raw('self.timestamp', 8), arr('self.data', lambda P: ('len', A_('self.data')), [('opaque', 'self.data[i]')])], None, self_view=True)
# ------------------------------------------------------------------ FADT: field -> (offset, width) per ACPI 6.5 table 5.9
FADT_FIELDS = [('signature', 0, 4), ('length', 4, 4), ('major_version', 8, 1), ('checksum', 9, 1), ('oem_id', 10, 6), ('oem_table_id', 16, 8), ('oem_revision', 24, 4), ('creator_id', 28, 4),
 ('creator_revision', 32, 4), ('firmware_ctrl', 36, 4), ('dsdt', 40, 4), ('_reserved0', 44, 1), ('preferred_pm_profile', 45, 1), ('sci_int', 46, 2), ('smi_cmd', 48, 4), ('acpi_enable', 52, 1),
 ('acpi_disable', 53, 1), ('s4bios_req', 54, 1), ('pstate_cnt', 55, 1), ('pm1a_evt_blk', 56, 4), ('pm1b_evt_blk', 60, 4), ('pm1a_cnt_blk', 64, 4), ('pm1b_cnt_blk', 68, 4), ('pm2_cnt_blk', 72, 4),
 ('pm_tmr_blk', 76, 4), ('gpe0_blk', 80, 4), ('gpe1_blk', 84, 4), ('pm1_evt_len', 88, 1), ('pm1_cnt_len', 89, 1), ('pm2_cnt_len', 90, 1), ('pm_tmr_len', 91, 1), ('gpe0_blk_len', 92, 1),
 ('gpe1_blk_len', 93, 1), ('gpe1_base', 94, 1), ('cst_cnt', 95, 1), ('p_lvl2_lat', 96, 2), ('p_lvl3_lat', 98, 2), ('flush_size', 100, 2), ('flush_stride', 102, 2), ('duty_offset', 104, 1),
 ('duty_width', 105, 1), ('day_alrm', 106, 1), ('mon_alrm', 107, 1), ('century', 108, 1), ('iapc_boot_arch', 109, 2), ('_reserved1', 111, 1), ('flags', 112, 4), ('reset_reg', 116, 12),
 ('reset_value', 128, 1), ('arm_boot_arch', 129, 2), ('fadt_minor_version', 131, 1), ('x_firmware_ctrl', 132, 8), ('x_dsdt', 140, 8), ('x_pm1a_evt_blk', 148, 12), ('x_pm1b_evt_blk', 160, 12),
 ('x_pm1a_cnt_blk', 172, 12), ('x_pm1b_cnt_blk', 184, 12), ('x_pm2_cnt_blk', 196, 12), ('x_pm_tmr_blk', 208, 12), ('x_gpe0_blk', 220, 12), ('x_gpe1_blk', 232, 12), ('sleep_control_reg', 244, 12),
 ('sleep_status_reg', 256, 12), ('hypervisor_vendor_identity', 268, 8)]
FADT_CTOR = {'signature': b'FACP', 'length': 276, 'major_version': 6, 'fadt_minor_version': 5, 'creator_id': b'RVAT', 'creator_revision': bytes([0, 0, 0, 1]),
             'oem_id': 'oem_id', 'oem_table_id': 'oem_table_id', 'oem_revision': 'oem_revision'}
# GAS field layout (ACPI 5.2.3.2) and the table header (5.2.6): field -> (offset, width)
LAYOUTS = {
 'gas::GAS': [('address_space_id', 0, 1), ('register_bit_width', 1, 1), ('register_bit_offset', 2, 1), ('access_size', 3, 1), ('address', 4, 8)],
 'TableHeader': [('signature', 0, 4), ('length', 4, 4), ('revision', 8, 1), ('checksum', 9, 1), ('oem_id', 10, 6), ('oem_table_id', 16, 8), ('oem_revision', 24, 4), ('creator_id', 28, 4), ('creator_revision', 32, 4)],
 'sdt::GenericAddress': [('address_space_id', 0, 1), ('register_bit_width', 1, 1), ('register_bit_offset', 2, 1), ('access_size', 3, 1), ('address', 4, 8)],
 'fadt::FADTBuilder': FADT_FIELDS,
 'tpm2::TpmServer1_2': [('header', 0, 36), ('platform_class', 36, 2), ('_reserved0', 38, 2), ('log_area_min_len', 40, 8), ('log_area_start_addr', 48, 8), ('tcg_spec_rev_bcd', 56, 2),
   ('device_flags', 58, 1), ('interrupt_flags', 59, 1), ('gpe', 60, 1), ('_reserved1', 61, 3), ('gsi', 64, 4), ('base_addr', 68, 12), ('_reserved2', 80, 4), ('tpm_config_addr', 84, 12),
   ('pci_segment', 96, 1), ('pci_bus', 97, 1), ('pci_device', 98, 1), ('pci_function', 99, 1)],
}

# vectors that count / offset fields summarise: (type, tag name) -> path of the vector on the receiver
VECTORS = {
 ('hmat::SystemLocality', 'initiators'): 'self.initiators', ('hmat::SystemLocality', 'targets'): 'self.targets',
 ('hmat::MemorySideCache', 'smbios_handles'): 'self.smbios_handles', ('pptt::ProcessorNode', 'resources'): 'self.resources',
 ('rhct::HartInfoNode', 'handles'): 'self.handles', ('rimt::Iommu', 'wires'): 'self.int_wires.Some.0',
 ('rimt::PcieRootComplex', 'maps'): 'self.id_mappings.Some.0', ('rimt::Platform', 'maps'): 'self.id_mappings.Some.0',
 ('cedt::XorInterleaveMath', 'bitmaps'): 'self.bitmaps', ('rqsc::QoSController', 'resources'): 'self.resource_structure',
 ('rhct::RHCT', 'nodes'): 'self.structures', ('rimt::RIMT', 'devices'): 'self.devices', ('viot::VIOT', 'nodes'): 'self.nodes',
 ('hest::HEST', 'sources'): 'self.structures', ('rqsc::RQSC', 'controllers'): 'self.structures',
}
# entry vectors of tables without a count field
ENTRY_VECTORS = {'xsdt::XSDT': 'self.entries', 'mcfg::MCFG': 'self.entries', 'madt::MADT': 'self.structures', 'srat::SRAT': 'self.structures', 'hmat::HMAT': 'self.entries',
                 'pptt::PPTT': 'self.structures', 'rhct::RHCT': 'self.structures', 'rimt::RIMT': 'self.devices', 'viot::VIOT': 'self.nodes', 'cedt::CEDT': 'self.structures',
                 'hest::HEST': 'self.structures', 'rqsc::RQSC': 'self.structures'}
# fixed element sizes of entries that carry no length field
FIXED_STEP = {'xsdt::XSDT': 8, 'mcfg::MCFG': 16}
