"""Bit tables for every option builder (ACPI 6.5 ch. 5, TCG ACPI spec, CXL 3.0 CEDT, RISC-V RIMT).

OPTIONS[type][method] = {field: effect}; effects:
  ('or', mask)                 field |= mask
  ('set', fn(P))               field = fn(P)      (P maps parameter names to atoms)
  ('or_if', cond_fn(P), mask)  field |= mask when cond holds, unchanged otherwise
Every public by-value/&mut-self method of a listed type that is *not* in the table must be a plain
setter (writes exactly the field of its own name with its single argument) or is reported as
unspecified (informational).  ENUMS gives the specification value of every option enum variant.
"""
from sym import *

def P_(n): return ('a', n)
def discr(n): return ('discr', ('a', n))
def isv(n, v): return ('isvar', ('a', n), v)

OPTIONS = {
 'srat::MemoryAffinity': {'enabled': {'flags': ('or', 1)}, 'hotpluggable': {'flags': ('or', 2)}, 'nonvolatile': {'flags': ('or', 4)}},
 'srat::GenericInitiator': {'enabled': {'flags': ('or', 1)}, 'architectural': {'flags': ('or', 2)}},
 'srat::RintcAffinity': {'enabled': {'flags': ('or', 1)}},
 'pptt::ProcessorNode': {'physical': {'flags': ('or', 1)}, 'valid': {'flags': ('or', 2)}, 'thread': {'flags': ('or', 4)}, 'leaf': {'flags': ('or', 8)}, 'identical': {'flags': ('or', 16)}},
 'pptt::CacheNodeBuilder': {
    'size': {'size': ('set', lambda P: P_('size')), 'flags': ('or', 0x01)},
    'sets': {'set_count': ('set', lambda P: P_('set_count')), 'flags': ('or', 0x02)},
    'associativity': {'associativity': ('set', lambda P: P_('associativity')), 'flags': ('or', 0x04)},
    'allocation_type': {'attributes': ('orterm', lambda P: discr('a')), 'flags': ('or', 0x08)},
    'cache_type': {'attributes': ('orterm', lambda P: discr('c')), 'flags': ('or', 0x10)},
    'write_policy': {'attributes': ('orterm', lambda P: discr('w')), 'flags': ('or', 0x20)},
    'line_size': {'line_size': ('set', lambda P: P_('line_size')), 'flags': ('or', 0x40)},
    'id': {'id': ('set', lambda P: P_('id')), 'flags': ('or', 0x80)},
    'next_level': {'next_level': ('set', lambda P: P_('c.0'))},
 },
 'cedt::CxlFixedMemory': {'cxl_type_2_memory': {'window_restrictions': ('or', 0x01)}, 'cxl_type_3_memory': {'window_restrictions': ('or', 0x02)},
    'volatile': {'window_restrictions': ('or', 0x04)}, 'persistent': {'window_restrictions': ('or', 0x08)}, 'fixed_configuration': {'window_restrictions': ('or', 0x10)}},
 'tpm2::TpmServer1_2': {
    'edge_triggered': {'interrupt_flags': ('or', 0x01)}, 'active_low': {'interrupt_flags': ('or', 0x02)},
    'sci_gpe': {'gpe': ('set', lambda P: P_('sci_gpe_bit')), 'interrupt_flags': ('or', 0x04)},
    'gsi': {'gsi': ('set', lambda P: P_('gsi')), 'interrupt_flags': ('or', 0x08)},
    'pci_sbdf': {'pci_segment': ('set', lambda P: P_('segment')), 'pci_bus': ('set', lambda P: P_('bus')), 'pci_device': ('set', lambda P: P_('device')),
                 'pci_function': ('set', lambda P: P_('function')), 'device_flags': ('or', 0x01)},
    'bus_is_pnp': {'device_flags': ('or', 0x02)},
    'config_addr': {'tpm_config_addr': ('setval', 'addr'), 'device_flags': ('or', 0x04)},
    'base_addr': {'base_addr': ('setval', 'addr')},
    'log_area': {'log_area_min_len': ('set', lambda P: P_('log_area_min_len')), 'log_area_start_addr': ('set', lambda P: P_('log_area_start_addr'))},
 },
 'madt::Gicc': {
    'performance_interrupt': {'performance_interrupt': ('set', lambda P: P_('gsi')), 'flags': ('or_if', lambda P: isv('trigger', 'Edge'), 0x02)},
    'maintenance_interrupt': {'maintenance_interrupt': ('set', lambda P: P_('gsi')), 'flags': ('or_if', lambda P: isv('trigger', 'Edge'), 0x04)},
 },
 'madt::GicMsi': {'spi_count_and_base': {'spi_count': ('set', lambda P: P_('spi_count')), 'spi_base': ('set', lambda P: P_('spi_base')), 'flags': ('or', 0x01)}},
 'hmat::SystemLocality': {'non_sequential_transfers': {'flags': ('or', 0x20)}, 'minimum_transfer_size_required': {'flags': ('or', 0x10)}},
 'fadt::FADTBuilder': {
    'flag': {'flags': ('orterm', lambda P: discr('flags'))},
    'preferred_pm_profile': {'preferred_pm_profile': ('set', lambda P: discr('profile'))},
    'acpi_enable': {'acpi_enable': ('set', lambda P: C(1)), 'acpi_disable': ('set', lambda P: C(0))},
    'acpi_disable': {'acpi_enable': ('set', lambda P: C(0)), 'acpi_disable': ('set', lambda P: C(1))},
    'dsdt_32': {'dsdt': ('set', lambda P: P_('dsdt_physical_addr')), 'x_dsdt': ('set', lambda P: C(0))},
    'dsdt_64': {'dsdt': ('set', lambda P: C(0)), 'x_dsdt': ('set', lambda P: P_('dsdt_physical_addr'))},
    'firmware_ctrl_32': {'firmware_ctrl': ('set', lambda P: P_('facs_physical_addr')), 'x_firmware_ctrl': ('set', lambda P: C(0))},
    'firmware_ctrl_64': {'firmware_ctrl': ('set', lambda P: C(0)), 'x_firmware_ctrl': ('set', lambda P: P_('facs_physical_addr'))},
    'gpe_info': {k: ('set', (lambda k: lambda P: P_(k))(k)) for k in ('gpe0_blk', 'gpe1_blk', 'gpe0_blk_len', 'gpe1_blk_len', 'gpe1_base')},
 },
}

# constructor-time options: (type, ctor) -> {field: fn(P)}
CTOR_OPTIONS = {
 ('madt::Gicc', 'new'): {'flags': lambda P: ite(isv('status', 'Enabled'), C(1), ite(isv('status', 'Disabled'), C(0), C(8)))},
 ('madt::GicMsi', 'new'): {'flags': lambda P: C(0)},
 ('madt::ProcessorLocalApic', 'new'): {'flags': lambda P: discr('enabled')},
 ('madt::RINTC', 'new'): {'flags': lambda P: discr('hart_status')},
 ('hmat::SystemLocality', 'new'): {'flags': lambda P: discr('loc_type')},
 ('hest::PcieAerRootPort', 'new_global'): {'flags': lambda P: C(2)}, ('hest::PcieAerRootPort', 'new_root_port'): {'flags': lambda P: discr('ff')},
 ('hest::PcieAerDevice', 'new_global'): {'flags': lambda P: C(2)}, ('hest::PcieAerDevice', 'new_root_port'): {'flags': lambda P: discr('ff')},
 ('hest::PcieAerBridge', 'new_global'): {'flags': lambda P: C(2)}, ('hest::PcieAerBridge', 'new_bridge'): {'flags': lambda P: discr('ff')},
 ('srat::MemoryAffinity', 'new'): {'flags': lambda P: C(0)}, ('srat::GenericInitiator', 'new'): {'flags': lambda P: C(0)}, ('srat::RintcAffinity', 'new'): {'flags': lambda P: C(0)},
 ('pptt::ProcessorNode', 'new'): {'flags': lambda P: C(0)},
 ('cedt::CxlFixedMemory', 'new'): {'window_restrictions': lambda P: C(0)},
}

# flag words computed at serialisation time from booleans / options: (type, helper) -> fn(self atoms)
def b(n): return ('a', n)
COMPUTED = {
 ('rimt::InterruptWire', 'flags'): lambda: bor(b('self.level_trig'), scale(b('self.polarity_high'), 2)),
 ('rimt::Iommu', 'flags'): lambda: bor(ite(('isvar', b('self.pci_device'), 'Some'), C(1), C(0)), ite(('isvar', b('self.proximity_domain'), 'Some'), C(2), C(0))),
 ('rimt::IdMapping', 'flags'): lambda: bor(bor(b('self.ats'), scale(b('self.pri'), 2)), scale(b('self.rciep'), 4)),
 ('rimt::PcieRootComplex', 'flags'): lambda: bor(b('self.ats'), scale(b('self.pri'), 2)),
}

ENUMS = {
 'fadt::Flags': {'Wbinvd': 1 << 0, 'WbinvdFlush': 1 << 1, 'ProcC1': 1 << 2, 'PLvl2Up': 1 << 3, 'PwrButton': 1 << 4, 'SlpButton': 1 << 5, 'FixRtc': 1 << 6, 'RtcS4': 1 << 7,
                 'TmrValExt': 1 << 8, 'DckCap': 1 << 9, 'ResetRegSup': 1 << 10, 'SealedCase': 1 << 11, 'Headless': 1 << 12, 'CpuSwSlp': 1 << 13, 'PciExpWak': 1 << 14,
                 'UsePlatformClock': 1 << 15, 'S4RtcStsValid': 1 << 16, 'RemotePowerOnCapable': 1 << 17, 'ForceApicClusterModel': 1 << 18,
                 'ForceApicPhysicalDestinationMode': 1 << 19, 'HwReducedAcpi': 1 << 20, 'LowPowerS0IdleCapable': 1 << 21,
                 'PersistentCpuCachesNotReported': 0 << 22, 'PersistentCpuCachesNotPersistent': 1 << 22, 'PersistentCpuCachesArePersistent': 2 << 22},
 'fadt::PmProfile': {'Unspecified': 0, 'Desktop': 1, 'Mobile': 2, 'Workstation': 3, 'EnterpriseServer': 4, 'SohoServer': 5, 'AppliancePc': 6, 'PerformanceServer': 7, 'Tablet': 8},
 'pptt::AllocationType': {'Read': 0, 'Write': 1, 'Both': 2},
 'pptt::CacheType': {'Data': 0 << 2, 'Instruction': 1 << 2, 'Unified': 2 << 2},
 'pptt::WritePolicy': {'Writeback': 0 << 4, 'Writethrough': 1 << 4},
 'madt::EnabledStatus': {'Disabled': 0, 'Enabled': 1, 'DisabledOnlineCapable': 2},
 'madt::HartStatus': {'Disabled': 0, 'Enabled': 1, 'OnlineCapable': 2},
 'madt::GicVersion': {'Unspecified': 0, 'GICv1': 1, 'GICv2': 2, 'GICv3': 3, 'GICv4': 4},
 'hmat::LocalityType': {'Memory': 0, 'FirstLevelCache': 1, 'SecondLevelCache': 2, 'ThirdLevelCache': 3},
 'hmat::DataType': {'AccessLatency': 0, 'ReadLatency': 1, 'WriteLatency': 2, 'AccessBandwidth': 3, 'ReadBandwidth': 4, 'WriteBandwidth': 5},
 'hest::FirmwareFirst': {'Disabled': 0, 'Enabled': 1},
 'hest::EnabledStatus': {'Disabled': 0, 'Enabled': 1},
 'cedt::WindowRestrictions': {'CxlType2Memory': 1, 'CxlType3Memory': 2, 'Volatile': 4, 'Persistent': 8, 'FixedConfiguration': 16},
 'cedt::CxlVersion': {'Cxl1_1': 0, 'Cxl2': 1},
 'cedt::InterleaveArithmetic': {'Modulo': 0, 'ModuloXor': 1},
 'cedt::InterleaveWays': {'Ways1': 0, 'Ways2': 1, 'Ways4': 2, 'Ways8': 3, 'Ways16': 4, 'Ways3': 8, 'Ways6': 9, 'Ways12': 10},
 'cedt::ProtocolType': {'CxlIo': 0, 'CxlMem': 1},
 'tpm2::PlatformClass': {'Client': 0, 'Server': 1},
 'tpm2::StartMethod': {'LegacyUse': 1, 'AcpiStart': 2, 'Mmio': 6, 'Crb': 7, 'CrbAndAcpiStart': 8, 'CrbAndSmcHvc': 11, 'I2cFifo': 12},
 'gas::AddressSpace': {'SystemMemory': 0, 'SystemIo': 1, 'PciConfigSpace': 2, 'EmbeddedController': 3, 'Smbus': 4, 'SystemCmos': 5, 'PciBarTarget': 6, 'Ipmi': 7,
                       'GeneralPursposeIo': 8, 'GenericSerialBus': 9, 'PlatformCommunicationsChannel': 0xa, 'PlatformRuntimeMechanism': 0xb, 'FunctionalFixedHardware': 0x7f},
 'gas::AccessSize': {'Undefined': 0, 'ByteAccess': 1, 'WordAccess': 2, 'DwordAccess': 3, 'QwordAccess': 4},
 'rhct::VirtualAddressScheme': {'Sv39': 0, 'Sv48': 1, 'Sv57': 2},
 'aml::FieldAccessType': {'Any': 0, 'Byte': 1, 'Word': 2, 'DWord': 3, 'QWord': 4, 'Buffer': 5},
 'aml::FieldLockRule': {'NoLock': 0, 'Lock': 1},
 'aml::FieldUpdateRule': {'Preserve': 0, 'WriteAsOnes': 1, 'WriteAsZeroes': 2},
 'aml::OpRegionSpace': {'SystemMemory': 0, 'SystemIO': 1, 'PCIConfig': 2, 'EmbeddedControl': 3, 'SMBus': 4, 'SystemCMOS': 5, 'PciBarTarget': 6, 'IPMI': 7, 'GeneralPurposeIO': 8, 'GenericSerialBus': 9},
 'aml::AddressSpaceCacheable': {'NotCacheable': 0, 'Cacheable': 1, 'WriteCombining': 2, 'PreFetchable': 3},
 'hest::NotificationType': {'Polled': 0, 'ExternalIrq': 1, 'LocalIrq': 2, 'Sci': 3, 'Nmi': 4, 'Cmci': 5, 'Mce': 6, 'GpioSignal': 7, 'Armv8Sea': 8, 'Armv8Sei': 9, 'ExternalGsiv': 10,
                            'SoftwareException': 11, 'RiscvSupervisorSoftwareEvent': 12, 'RiscvLowPriorityRasInterrupt': 13, 'RiscvHighPriorityRasInterrupt': 14, 'RiscvHardwareErrorException': 15},
 'hest::ErrorSeverity': {'Recoverable': 0, 'Fatal': 1, 'Correctable': 2, 'None': 3},
 'rqsc::ControllerType': {'Capacity': 0, 'Bandwidth': 1},
 'rqsc::ResourceType': {'Cache': 0, 'Memory': 1},
}

# Values the specification defines that the crate does not (yet) offer: value -> accepted spellings of a variant
# name (compared lower-case, alphanumerics only).  A variant added to one of these enums is decided against this
# table; a variant whose name is in neither table cannot be decided and is reported.
ENUM_EXTRA = {
 'aml::OpRegionSpace': {0x0a: ['pcc', 'platformcommchannel', 'platformcommunicationschannel', 'platformcommunicationchannel'],
                        0x0b: ['prm', 'platformrtmechanism', 'platformruntimemechanism'],
                        0x7f: ['ffixedhw', 'ffixedhardware', 'functionalfixedhw', 'functionalfixedhardware', 'fixedhardware']},
 'aml::FieldAccessType': {},
 'aml::FieldLockRule': {},
 'aml::FieldUpdateRule': {},
 'aml::AddressSpaceCacheable': {},
}

def extra_value(path, variant):
    """specified value of a variant the crate did not have when ENUMS was written, or None"""
    key = ''.join(ch for ch in variant.lower() if ch.isalnum())
    for val, names in ENUM_EXTRA.get(path, {}).items():
        if key in names: return val
    return None
