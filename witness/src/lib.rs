//! Type-level witnesses (DESIGN 2.7): clauses of the properties that Rust's type system enforces are pinned by
//! `compile_fail,E0xxx` doctests, each paired with a compiling twin that differs only in the offending line
//! (a witness whose path is merely wrong would also "fail to compile").  Only compiled, never run
//! (`cargo +nightly test --doc`: the twins are `no_run`).

/// C05: a handle cannot be forged - the newtype's field is private.
/// ```compile_fail,E0423
/// use acpi_tables::pptt::*;
/// let forged = CacheHandle(36);
/// let _ = CacheNodeBuilder::default().next_level(&forged).to_node();
/// ```
/// ```no_run
/// use acpi_tables::pptt::*;
/// let mut pptt = PPTT::new(*b"OEMOEM", *b"OEMTABLE", 1);
/// let real = pptt.add_cache(CacheNodeBuilder::default().to_node());
/// let _ = CacheNodeBuilder::default().next_level(&real).to_node();
/// ```
pub struct C05ForgeCacheHandle;

/// C05: a VIOT translation handle cannot be conjured either.
/// ```compile_fail,E0423
/// use acpi_tables::viot::*;
/// let h = TranslationHandle(48);
/// let _ = MmioEndpoint::new(1, 0x1000, &h);
/// ```
/// ```no_run
/// use acpi_tables::viot::*;
/// let mut viot = VIOT::new(*b"OEMOEM", *b"OEMTABLE", 1);
/// let h = viot.add_virtio_mmio_iommu(VirtIoMmioIommu::new(0x4000));
/// let _ = MmioEndpoint::new(1, 0x1000, &h);
/// ```
pub struct C05ForgeTranslationHandle;

/// C05: handles of different node kinds do not mix - a cache handle is not a processor handle.
/// ```compile_fail,E0308
/// use acpi_tables::pptt::*;
/// let mut pptt = PPTT::new(*b"OEMOEM", *b"OEMTABLE", 1);
/// let cache = pptt.add_cache(CacheNodeBuilder::default().to_node());
/// let _ = ProcessorNode::new(Some(&cache), 0);
/// ```
/// ```no_run
/// use acpi_tables::pptt::*;
/// let mut pptt = PPTT::new(*b"OEMOEM", *b"OEMTABLE", 1);
/// let cpu = pptt.add_processor(ProcessorNode::new(None, 0));
/// let _ = ProcessorNode::new(Some(&cpu), 1);
/// ```
pub struct C05HandleKinds;

/// C01 (typestate): an FADT under construction cannot be serialised; only `finalize` yields the `Aml` value.
/// ```compile_fail,E0599
/// use acpi_tables::{fadt::*, Aml};
/// let mut v: Vec<u8> = Vec::new();
/// FADTBuilder::new(*b"OEMOEM", *b"OEMTABLE", 1).to_aml_bytes(&mut v);
/// ```
/// ```no_run
/// use acpi_tables::{fadt::*, Aml};
/// let mut v: Vec<u8> = Vec::new();
/// FADTBuilder::new(*b"OEMOEM", *b"OEMTABLE", 1).finalize().to_aml_bytes(&mut v);
/// ```
pub struct C01FadtTypestate;

/// C01 (typestate): a finalized FADT cannot be built around the checksum step.
/// ```compile_fail,E0451
/// use acpi_tables::fadt::*;
/// let b = FADTBuilder::new(*b"OEMOEM", *b"OEMTABLE", 1);
/// let _ = FADT { table: b };
/// ```
/// ```no_run
/// use acpi_tables::fadt::*;
/// let b = FADTBuilder::new(*b"OEMOEM", *b"OEMTABLE", 1);
/// let _ = b.finalize();
/// ```
pub struct C01FadtConstruction;

/// C13: the image of a generic table is reachable only through the checksumming API.
/// ```compile_fail,E0616
/// use acpi_tables::sdt::Sdt;
/// let mut t = Sdt::new(*b"TEST", 40, 1, *b"OEMOEM", *b"OEMTABLE", 1);
/// t.data[36] = 7;
/// ```
/// ```no_run
/// use acpi_tables::sdt::Sdt;
/// let mut t = Sdt::new(*b"TEST", 40, 1, *b"OEMOEM", *b"OEMTABLE", 1);
/// t.write_u8(36, 7);
/// ```
pub struct C13DataPrivate;

/// C17: the accumulator state can only change through add / sub / append / delete.
/// ```compile_fail,E0616
/// use acpi_tables::Checksum;
/// let mut c = Checksum::default();
/// c.value = 3;
/// ```
/// ```no_run
/// use acpi_tables::Checksum;
/// let mut c = Checksum::default();
/// c.add(3);
/// ```
pub struct C17ValuePrivate;

/// C14: serialisation takes `&self`; it cannot assign to the receiver.
/// ```compile_fail,E0594
/// use acpi_tables::{Aml, AmlSink};
/// struct Counter(u8);
/// impl Aml for Counter {
///     fn to_aml_bytes(&self, sink: &mut dyn AmlSink) {
///         self.0 += 1;
///         sink.byte(self.0);
///     }
/// }
/// ```
/// ```no_run
/// use acpi_tables::{Aml, AmlSink};
/// struct Counter(u8);
/// impl Aml for Counter {
///     fn to_aml_bytes(&self, sink: &mut dyn AmlSink) {
///         sink.byte(self.0);
///     }
/// }
/// ```
pub struct C14SerialiserCannotMutate;
