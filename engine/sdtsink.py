"""The generic table as a sink: each entry point of `impl AmlSink for Sdt` that the crate overrides, evaluated on a
symbolic table (len >= 36).  `vec` is evaluated twice - for a non-empty and for an empty slice - so that an
emptiness test in the override is decided per case instead of being joined."""
from sym import *
import sym
from model import *
from evalr import SeqV, StructV, RefV, Cell

X = {'byte': (A('b', 0, 255), 1), 'word': (A('x16', 0, 0xffff), 2), 'dword': (A('x32', 0, 0xffffffff), 4), 'qword': (A('x64', 0, (1 << 64) - 1), 8)}

def cases(f):
    """[(label, method, make_arg(I) -> (arg, bytes delivered))] for the overridden entry points"""
    ov = f.trait_impls.get(('AmlSink', 'sdt::Sdt'), {})
    out = []
    for meth in ('byte', 'word', 'dword', 'qword'):
        if meth in ov:
            out.append((meth, meth, (lambda I, m=meth: (X[m][0], [('int', X[m][0], X[m][1])]))))
    if 'vec' in ov:
        def nonempty(I):
            v = SeqV('u8', [('raw', ('a', 'v'), ('len', ('a', 'v')))], name='v')
            I.st.ranges[('len', ('a', 'v'))] = (1, (1 << 64) - 1)
            return RefV(Cell(v)), [('raw', ('a', 'v'), ('len', ('a', 'v')))]
        def empty(I):
            return RefV(Cell(SeqV('u8', [], name='v'))), []
        out.append(('vec (non-empty)', 'vec', nonempty)); out.append(('vec (empty)', 'vec', empty))
    return out

def run_case(f, meth, make_arg):
    I = new_interp(f, abstract=())
    sv = I.sym_value('sdt::Sdt', 'self')
    old = seqlen(sv.fields['data'].segs)
    I.st.ranges[old] = (36, (1 << 63) - 1)
    arg, want = make_arg(I)
    sym.CTX = I.st.ranges
    try:
        I.sink_call(meth, [RefV(Cell(sv), True), arg], {'sp': None})
    finally:
        sym.CTX = {}
    return I, sv, old, want
