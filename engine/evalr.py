"""Abstract interpreter over the typed THIR tree (DESIGN 2.2).

One pass per function, compositional (callees are inlined; the crate's static call graph is
acyclic except through `dyn Aml`, which is cut by Opaque segments).  Branches are *joined*
(Cond segments / ite terms), loops are *summarised* (Repeat segments / byte-sum terms): no path
is ever enumerated or executed, and nothing is handed to a solver.
"""
import copy, re
from sym import *
import sym
from ir import norm_ty, strip_refs, split_generics

INT_TYS = {'u8': 8, 'u16': 16, 'u32': 32, 'u64': 64, 'usize': 64, 'u128': 128,
           'i8': 8, 'i16': 16, 'i32': 32, 'i64': 64, 'isize': 64}
ZC = {'zerocopy::U16<zerocopy::LittleEndian>': 16, 'zerocopy::U32<zerocopy::LittleEndian>': 32,
      'zerocopy::U64<zerocopy::LittleEndian>': 64}
ZC_BE = {'zerocopy::U16<zerocopy::BigEndian>': 16, 'zerocopy::U32<zerocopy::BigEndian>': 32,
         'zerocopy::U64<zerocopy::BigEndian>': 64}

def int_bits(ty):
    ty = ty.strip()
    if ty in INT_TYS: return INT_TYS[ty]
    if ty in ZC: return ZC[ty]
    return None

# ------------------------------------------------------------------ values

import itertools
_UID = itertools.count(1)
def new_uid(): return next(_UID)

def place_key(p):
    """identity of a place that survives state copies (uids are copied with the object)"""
    if isinstance(p, Cell): return ('cell', p.uid)
    if isinstance(p, FieldPlace): return ('field', getattr(p.obj, 'uid', id(p.obj)), p.name)
    if isinstance(p, IndexPlace): return ('index', getattr(p.seq, 'uid', id(p.seq)), p.idx)
    return ('obj', id(p))

class Top:
    def __init__(self, reason, sp=None):
        self.reason = reason; self.sp = sp
    def __repr__(self): return 'Top(%s @%s)' % (self.reason, self.sp)

class Unit:
    def __repr__(self): return '()'
UNIT = Unit()

class Never(Unit):
    """the value of an expression on a path that has left the function (`return`): it takes part in no join"""
    def __repr__(self): return '!'
NEVER = Never()

TRANSPARENT = set()     # crate-private helper structs: state nested in one is found under the parent by field name (ir.Facts fills it)

class FieldMap(dict):
    """fields of a struct value.  A name that is not a field of the struct itself is looked up in the fields that are
    crate-private helper structs (state grouped into a nested private struct is still state of the parent): the lookup
    succeeds only when exactly one of them has it."""
    def _nested(self, k):
        hits = [v.fields[k] for v in self.values() if isinstance(v, StructV) and v.path in TRANSPARENT and k in v.fields]
        return hits
    def __missing__(self, k):
        hits = self._nested(k)
        if len(hits) == 1: return hits[0]
        raise KeyError(k)
    def get(self, k, default=None):
        if dict.__contains__(self, k): return dict.__getitem__(self, k)
        hits = self._nested(k)
        return hits[0] if len(hits) == 1 else default

class StructV:
    def __init__(self, path, fields, ty=None):
        self.path = path; self.fields = fields if isinstance(fields, FieldMap) else FieldMap(fields); self.ty = ty or path; self.uid = new_uid()
    def __repr__(self): return '%s{%s}' % (self.path, ', '.join('%s: %r' % kv for kv in self.fields.items()))

class EnumV:
    """variant None => symbolic (sym is the atom naming it)"""
    def __init__(self, path, variant, fields=None, sym=None, ty=None):
        self.path = path; self.variant = variant; self.fields = fields or {}; self.sym = sym; self.ty = ty or path
        self.payload_cache = {}; self.uid = new_uid()
    def __repr__(self):
        if self.variant is None: return '%s::?%s' % (self.path, show(self.sym))
        return '%s::%s%r' % (self.path, self.variant, self.fields)

class SeqV:
    """Vec<T> / [T; N] / [T] / String / str.  elem == 'u8' => byte segments."""
    def __init__(self, elem, segs=None, name=None):
        self.elem = elem; self.segs = list(segs or []); self.stores = []; self.name = name; self.uid = new_uid()
    def is_bytes(self): return self.elem == 'u8'
    def __repr__(self): return 'Seq<%s>%s%s' % (self.elem, show_segs(self.segs), (' stores=%r' % self.stores) if self.stores else '')

class TupleV:
    def __init__(self, items): self.items = list(items)
    def __repr__(self): return 'Tuple%r' % (self.items,)

class RefV:
    def __init__(self, place, mut=False): self.place = place; self.mut = mut
    def __repr__(self): return '&%r' % (self.place,)

class DynV:
    """opaque object known only through a trait (&dyn Aml, Box<dyn Aml>, generic T)"""
    def __init__(self, name, ty=None, concrete=None):
        self.name = name; self.ty = ty; self.concrete = concrete
    def __repr__(self): return 'Dyn(%s)' % show(self.name)

class ClosureV:
    def __init__(self, d, upvars): self.d = d; self.upvars = upvars

class FnItemV(ClosureV):
    """a function item used as a value (`map_or(0, Into::into)`, `.map(u32::from)`): called by path"""
    def __init__(self, path, ty): self.d = path; self.upvars = []; self.fn_ty = ty

class ChoiceV:
    """one of several values depending on conditions (e.g. a `&dyn Aml` chosen by a match among structures of different types)"""
    def __init__(self, alts): self.alts = list(alts)      # [(cond, value)], last cond TRUE
    def __repr__(self): return 'Choice%r' % ([type(v).__name__ for _, v in self.alts],)

class OuterSink:
    """the `&mut dyn AmlSink` parameter of the function under analysis: records the trace"""
    def __init__(self, byte_only=False): self.segs = []; self.calls = []; self.byte_only = byte_only
    def __repr__(self): return 'Sink' + show_segs(self.segs)

class IterV:
    def __init__(self, seq, by_ref=True, kind='slice', maps=None, enum=False):
        self.seq = seq; self.by_ref = by_ref; self.kind = kind; self.maps = list(maps or []); self.enum = enum

class RangeV:
    def __init__(self, lo, hi): self.lo = lo; self.hi = hi

class SliceV:
    """a sub-range view of a SeqV (place-like): seq[lo..hi]"""
    def __init__(self, seq, lo, hi): self.seq = seq; self.lo = lo; self.hi = hi

# ------------------------------------------------------------------ places

class Cell:
    def __init__(self, v): self.v = v; self.uid = new_uid()
    def get(self): return self.v
    def set(self, v): self.v = v
    def __repr__(self): return 'Cell(%r)' % (self.v,)

class FieldPlace:
    def __init__(self, obj, name): self.obj = obj; self.name = name
    def get(self): return self.obj.fields[self.name]
    def set(self, v): self.obj.fields[self.name] = v
    def __repr__(self): return 'Field(%s.%s)' % (getattr(self.obj, 'path', '?'), self.name)

class IndexPlace:
    def __init__(self, interp, seq, idx): self.interp = interp; self.seq = seq; self.idx = idx
    def get(self): return self.interp.seq_get(self.seq, self.idx)
    def set(self, v): self.interp.seq_set(self.seq, self.idx, v)

# ------------------------------------------------------------------ segments

def show_segs(segs):
    out = []
    for s in segs:
        k = s[0]
        if k == 'int': out.append('%s:%d' % (show(s[1]), s[2]))
        elif k == 'raw': out.append('raw(%s;%s)' % (show(s[1]), show(s[2])))
        elif k == 'opaque': out.append('opaque(%s)' % show(s[1]))
        elif k == 'rep': out.append('rep(%s,%s,%s)' % (show(s[1]), s[2], show_segs(s[3])))
        elif k == 'cond': out.append('cond(%s,%s,%s)' % (show(s[1]), show_segs(s[2]), show_segs(s[3])))
        elif k == 'pkglen': out.append('pkglen(%s,%s)' % (show(s[1]), show(s[2])))
        elif k == 'elem': out.append('elem(%r)' % (s[1],))
        elif k == 'sym': out.append('sym(%s)' % show(s[1]))
        elif k == 'fill': out.append('fill(%s,%r)' % (show(s[1]), s[2]))
        else: out.append(repr(s))
    return '[' + ', '.join(out) + ']'

def seglen(s):
    k = s[0]
    if k == 'int': return C(s[2])
    if k == 'raw': return s[2]
    if k == 'opaque': return ('call', 'elen', s[1])
    if k == 'rep':
        bl = seqlen(s[3])
        if s[2] is None or not _mentions(bl, s[2]): return mul(s[1], bl)
        return ('Ssum', s[1], s[2], bl)      # sum over the repetition of the (element-dependent) body length
    if k == 'cond': return ite(s[1], seqlen(s[2]), seqlen(s[3]))
    if k == 'pkglen': return ('call', 'pkglen_len', s[1], s[2])
    if k == 'elem': return ONE
    if k == 'sym': return ('len', s[1])
    if k == 'fill': return s[1]
    if k == 'stored': return seqlen(s[1])
    if k == 'prefix': return s[1]
    raise ValueError(s)

def seqlen(segs):
    r = ZERO
    for s in segs: r = add(r, seglen(s))
    return r

def _mentions(t, var):
    for u in subterms(t):
        if u[0] == 'a' and isinstance(u[1], str) and var in u[1]: return True
    return False

def _slice_of(t, width):
    """t == bits [8*j, 8*j + 8*width) of x  ->  (x, j)   (j in bytes)"""
    bits = 8 * width
    if t[0] == 'and' and t[2] == C((1 << bits) - 1):
        u = t[1]
        if u[0] == 'shr' and u[2][0] == 'c' and u[2][1] % 8 == 0: return u[1], u[2][1] // 8
        return u, 0
    if t[0] == 'trunc' and t[2] == bits:
        u = t[1]
        if u[0] == 'shr' and u[2][0] == 'c' and u[2][1] % 8 == 0: return u[1], u[2][1] // 8
        return u, 0
    if t[0] == 'shr' and t[2][0] == 'c' and t[2][1] % 8 == 0:
        u = t[1]; sh = t[2][1]
        if u[0] == 'trunc' and u[2] == sh + bits: return u[1], sh // 8      # (trunc_{sh+bits}(x)) >> sh
        lo, hi = rng(t)
        if lo >= 0 and hi < (1 << bits): return u, sh // 8                  # the top slice of x
    return None

def merge_bytes(segs):
    """consecutive integer segments that are the slices [0,w1), [w1,w1+w2), ... of one term x < 2^(8*total)
    form the single little-endian integer x (byte-wise / half-wise pushes of one value)"""
    out = []; i = 0
    while i < len(segs):
        s = segs[i]
        b = _slice_of(s[1], s[2]) if s[0] == 'int' and s[1][0] != 'c' else None
        if b and b[1] == 0:
            x = b[0]; k = 1; total = s[2]
            while i + k < len(segs) and segs[i + k][0] == 'int' and _slice_of(segs[i + k][1], segs[i + k][2]) == (x, total):
                total += segs[i + k][2]; k += 1
            lo, hi = rng(x)
            if k > 1 and lo >= 0 and hi < (1 << (8 * total)):
                out.append(('int', x, total)); i += k; continue
        out.append(s); i += 1
    return out

def flatten_stores(seq):
    """the contents of a byte sequence after its recorded stores, as plain segments - when every piece has a constant
    length and every store a constant position (a fixed-size buffer filled field by field); None otherwise"""
    if not isinstance(seq, SeqV) or not seq.is_bytes(): return None
    if not seq.stores: return list(seq.segs)
    cells = []     # [start, length, seg]
    pos = 0
    for s in seq.segs:
        l = seglen(s)
        if l[0] != 'c': return None
        if l[1]: cells.append([pos, l[1], s]); pos += l[1]
    total = pos
    if total > 65536: return None
    def split_at(p):
        for i, (st, ln, s) in enumerate(cells):
            if st < p < st + ln:
                k = p - st
                if s[0] == 'int':
                    if s[1][0] == 'c':
                        a = ('int', C(s[1][1] & ((1 << (8 * k)) - 1)), k); b = ('int', C(s[1][1] >> (8 * k)), ln - k)
                    else:
                        a = ('int', trunc(s[1], 8 * k), k); b = ('int', shr(s[1], C(8 * k)), ln - k)
                elif s[0] == 'rep' and s[2] is None and s[1][0] == 'c' and seqlen(s[3]) == ONE:
                    a = ('rep', C(k), None, s[3]); b = ('rep', C(ln - k), None, s[3])
                else:
                    return False
                cells[i:i + 1] = [[st, k, a], [p, ln - k, b]]
                return True
        return True
    for (i, v) in seq.stores:
        if isinstance(i, tuple) and i and i[0] == 'range':
            lo, hi = i[1], i[2]; val = list(v)
        elif isinstance(i, tuple) and i and i[0] == 'within':
            return None
        else:
            lo, hi = i, add(i, ONE)
            if not is_term(v): return None
            val = [('int', v, 1)]
        if not (is_term(lo) and is_term(hi) and lo[0] == 'c' and hi[0] == 'c'): return None
        lo, hi = lo[1], hi[1]
        if not (0 <= lo <= hi <= total): return None
        vl = seqlen(val)
        if vl[0] != 'c' or vl[1] != hi - lo: return None
        if hi == lo: continue
        if not split_at(lo) or not split_at(hi): return None
        keep = [c for c in cells if c[0] + c[1] <= lo or c[0] >= hi]
        newc = []; q = lo
        for s in val:
            l = seglen(s)[1]
            if l: newc.append([q, l, s]); q += l
        cells = sorted(keep + newc, key=lambda c: c[0])
    return [c[2] for c in cells]

def norm_segs(segs):
    """canonical form: empty segments dropped, constant conditions resolved, byte-wise pushes of one integer merged"""
    segs = merge_bytes(list(segs))
    segs = merge_bytes(segs)      # slices of slices (bytes -> words -> dwords)
    out = []
    for s in segs:
        if s[0] == 'cond':
            a = norm_segs(s[2]); b = norm_segs(s[3])
            if s[1] == TRUE: out.extend(a); continue
            if s[1] == FALSE: out.extend(b); continue
            if a == b: out.extend(a); continue
            if s[1][0] == 'bnot': s = ('cond', s[1][1], tuple(b), tuple(a)); a, b = list(s[2]), list(s[3])
            # inside a branch its own condition is decided: `if c { if c {A} else {B} }` is `if c {A}`
            def resolve(ss, c, val):
                out_ = []
                for x in ss:
                    if x[0] == 'cond' and x[1] == c: out_.extend(resolve(list(x[2] if val else x[3]), c, val))
                    elif x[0] == 'cond' and x[1] == ('bnot', c): out_.extend(resolve(list(x[3] if val else x[2]), c, val))
                    else: out_.append(x)
                return out_
            a = resolve(a, s[1], True); b = resolve(b, s[1], False)
            if a == b: out.extend(a); continue
            # `if n > 0 { n repetitions }` is just n repetitions
            if not b and len(a) == 1 and a[0][0] == 'rep' and s[1] == cmp('lt', ZERO, a[0][1]): out.extend(a); continue
            out.append(('cond', s[1], tuple(a), tuple(b)))
        elif s[0] == 'rep':
            body = tuple(norm_segs(s[3]))
            if not body or s[1] == ZERO: continue
            if s[1] == ONE and s[2] is None: out.extend(body); continue
            out.append(('rep', s[1], s[2], body))
        elif s[0] == 'raw' and s[2] == ZERO: continue
        else: out.append(s)
    return out

# ------------------------------------------------------------------ interpreter state

class State:
    def __init__(self):
        self.frames = []     # list of dict var -> Cell
        self.roots = []      # extra root objects (params of the analysed function, outer sink)
        self.facts = []      # [(cond term, span)] assumed on the current path
        self.ranges = {}     # scoped range refinements derived from the facts
        self.dead = False
        self.skip = None     # condition under which the current loop iteration has already ended (`continue`)

class Frame:
    def __init__(self, d):
        self.d = d; self.vars = {}; self.upvars = {}; self.tsub = {}; self.loop_depth = 0
        self.returned = None      # condition under which this activation has already executed `return`
        self.ret_vals = []        # [(condition, value)] of those returns, in order

class Diverge(Exception): pass

class ReturnEx(Exception):
    """an early `return` met on a straight-line path (under a symbolic branch it is turned into an undecided value)"""
    def __init__(self, value): Exception.__init__(self); self.value = value

def fcopy(x, memo=None):
    """structure-preserving copy of interpreter values: containers are copied (aliasing kept through
    memo), terms (immutable tuples) are shared"""
    if memo is None: memo = {}
    if isinstance(x, tuple):
        if x and x[0] in ('elem', 'fill', 'rep') and _has_value(x):
            return tuple(fcopy(y, memo) if not isinstance(y, str) else y for y in x)
        return x
    if x is None or isinstance(x, (int, str, bool, float)): return x
    i = id(x)
    if i in memo: return memo[i]
    if isinstance(x, list):
        r = []; memo[i] = r
        r.extend(fcopy(y, memo) for y in x); return r
    if isinstance(x, dict):
        r = x.__class__(); memo[i] = r
        for k, v in x.items(): r[k] = fcopy(v, memo)
        return r
    if isinstance(x, set):
        return set(x)
    if isinstance(x, (Unit,)): return x
    cls = x.__class__
    r = cls.__new__(cls); memo[i] = r
    for k, v in x.__dict__.items():
        if k in ('interp',): r.__dict__[k] = v
        else: r.__dict__[k] = fcopy(v, memo)
    return r

def _has_value(seg):
    for y in seg[1:]:
        if isinstance(y, tuple):
            if y and isinstance(y[0], tuple):
                if any(_has_value(z) for z in y if isinstance(z, tuple) and z and isinstance(z[0], str) and z[0] in ('elem', 'fill', 'rep')): return True
            elif y and y[0] in ('elem', 'fill', 'rep') and _has_value(y): return True
        elif not isinstance(y, (str, int, type(None))): return True
    return False

def is_term(v): return isinstance(v, tuple)

class GuardList(list):
    """the refusals met during an evaluation; each records the path facts under which it was evaluated"""
    def __init__(self, interp): list.__init__(self); self.interp = interp
    def append(self, g):
        try: g.setdefault('ctx', [c for c, _ in self.interp.st.facts])
        except Exception: g.setdefault('ctx', [])
        list.append(self, g)

class Interp:
    def __init__(self, facts, abstract=()):
        self.f = facts
        TRANSPARENT.clear(); TRANSPARENT.update(getattr(facts, 'transparent', ()))
        self.abstract = set(abstract)
        self.st = State(); sym.CTX = self.st.ranges
        self.tops = []          # (reason, span)
        self.casts = []         # narrowing casts met: (from, to, term, span, fits)
        self.guards = GuardList(self)   # {cond, sp, kind ('assert'|'panic-arm'|'unwrap'|...), ctx: path facts when it was evaluated}
        self.visited_casts = set()   # spans of every int cast evaluated
        self.visited_arith = set()   # spans of every + - * << evaluated
        self.arith_sites = []        # arithmetic whose mathematical result may leave the type's range
        self.log = []           # ordered events: ('guard', cond, sp) / ('mutate', what, sp)
        self.calls_seen = []    # inlined callee defs
        self.fresh = 0
        self.active_loops = set()
        self._cur_var = None
        self._iter_idx = None
        self.range_index = {}
        self.depth = 0

    # -------------------------------------------------------------- helpers
    def top(self, reason, e=None):
        sp = e.get('sp') if isinstance(e, dict) else e
        t = Top(reason, sp)
        self.tops.append((reason, sp))
        return t

    def fresh_name(self, base):
        self.fresh += 1
        return '%s#%d' % (base, self.fresh)

    def frame(self): return self.st.frames[-1]

    def resolve_ty(self, t):
        """substitute the type parameters bound by the enclosing inlined call"""
        ts = self.frame().tsub if self.st.frames else {}
        if not ts: return t
        return re.sub(r'\b([A-Z]\w*)\b', lambda m: ts.get(m.group(1), m.group(1)) if m.group(1) in ts else m.group(1), t)

    def size_of_ty(self, t):
        t = norm_ty(self.resolve_ty(t))
        b = int_bits(t)
        if b: return b // 8
        if t == 'bool': return 1
        adt = self.f.adt(t)
        if adt and 'size' in adt: return adt['size']
        m = re.match(r'^\[(.*); (\d+)\]$', t)
        if m:
            s = self.size_of_ty(m.group(1))
            return s * int(m.group(2)) if s is not None else None
        return None

    # -------------------------------------------------------------- symbolic inputs
    def sym_value(self, ty, name):
        ty = ty.strip()
        nty = norm_ty(ty)
        if not hasattr(self, 'root_types'): self.root_types = {}
        if isinstance(name, str) and '.' not in name and '[' not in name: self.root_types[name] = strip_refs(nty)
        if nty.startswith('&mut dyn AmlSink') or nty == '&mut dyn AmlSink':
            s = OuterSink(); self.st.roots.append(s)
            return RefV(Cell(s), True)
        if nty.startswith('&'):
            inner = strip_one_ref(nty)
            v = self.sym_value(inner, name)
            return RefV(Cell(v), nty.startswith('&mut'))
        b = int_bits(nty)
        if b:
            return A(name, 0, (1 << b) - 1)
        if nty == 'bool': return A(name, 0, 1)
        if nty == 'char': return A(name, 0, 0x10ffff)
        if nty in ('str', 'alloc::string::String'):
            return SeqV('u8', [('raw', ('a', name), ('len', ('a', name)))], name=name)
        m = re.match(r'^\[(.*); (\d+)\]$', nty)
        if m:
            el, n = m.group(1), int(m.group(2))
            if el == 'u8':
                return SeqV('u8', [('raw', ('a', name), C(n))], name=name)
            return SeqV(el, [('elem', self.sym_value(el, '%s[%d]' % (name, i))) for i in range(n)], name=name)
        m = re.match(r'^\[(.*)\]$', nty)
        if m:
            el = m.group(1)
            if el == 'u8': return SeqV('u8', [('raw', ('a', name), ('len', ('a', name)))], name=name)
            return SeqV(el, [('sym', ('a', name))], name=name)
        base, args = split_generics(nty)
        if base == 'alloc::vec::Vec':
            el = args[0]
            if el == 'u8': return SeqV('u8', [('raw', ('a', name), ('len', ('a', name)))], name=name)
            return SeqV(el, [('sym', ('a', name))], name=name)
        if base == 'alloc::boxed::Box':
            return self.sym_value(args[0], name)
        if nty.startswith('dyn ') or re.match(r'^[A-Z]\w*$', nty) and nty not in self.f.adts:
            return DynV(('a', name), ty=nty)
        if base == 'core::option::Option':
            return EnumV('core::option::Option', None, sym=('a', name), ty=nty)
        adt = self.f.adt(base)
        if adt:
            cc = getattr(self, 'ctor_closed', {}).get(base)
            if cc and not getattr(self, '_in_ctor_closed', False):
                # every value of this type is its constructor applied to some arguments (model.ctor_closed)
                from model import params_of as _params_of
                cb = self.f.bodies[cc[0]]
                cargs = [self.sym_value(norm_ty(t), '%s.%s' % (name, cc[1][n])) for n, t in _params_of(cb)]
                n_t, n_g = len(self.tops), len(self.guards)
                self._in_ctor_closed = True
                try:
                    v = self.call_local(cc[0], cargs, None)
                finally:
                    self._in_ctor_closed = False
                if len(self.tops) == n_t and isinstance(v, StructV) and not self.st.dead:
                    # what the constructor refuses cannot be the arguments of an existing value: its refusals are facts here
                    for g_ in self.guards[n_g:]:
                        if is_term(g_['cond']):
                            self.st.facts.append((g_['cond'], None)); sym.refine(g_['cond'], self.st.ranges)
                    del self.guards[n_g:]
                    self.log[:] = [ev for ev in self.log if not (ev[0] == 'guard' and any(ev[1] is g_['cond'] or ev[1] == g_['cond'] for g_ in ()))]
                    return v
                del self.tops[n_t:]; del self.guards[n_g:]
            if adt['kind'] == 'Struct':
                fields = {}
                for fd in adt['variants'][0]['fields']:
                    fty = fd['ty']
                    if args and re.match(r'^[A-Z]$', fty): fty = args[0]
                    fty = re.sub(r'\bT\b', args[0], fty) if args else fty
                    sub = name + '.' + fd['name']
                    if base in getattr(self.f, 'newtypes', ()): sub = name
                    if norm_ty(fty) in TRANSPARENT:
                        # state grouped into a private helper struct is named as state of the parent (names are only
                        # identifiers; kept apart when they would collide)
                        inner = {x['name'] for x in self.f.adt(norm_ty(fty))['variants'][0]['fields']}
                        outer = {x['name'] for x in adt['variants'][0]['fields']}
                        others = set()
                        for x in adt['variants'][0]['fields']:
                            if x is not fd and norm_ty(x['ty']) in TRANSPARENT: others |= {y['name'] for y in self.f.adt(norm_ty(x['ty']))['variants'][0]['fields']}
                        if not (inner & outer) and not (inner & others): sub = name
                    fields[fd['name']] = self.sym_value(fty, sub)
                return StructV(base, fields, ty=nty)
            if adt['kind'] == 'Enum':
                ds = [v['discr'] for v in adt['variants']]
                sym.DISCR_RANGE[('a', name)] = (min(ds), max(ds))
                sym.ENUM_DISCR[('a', name)] = [(v['name'], v['discr']) for v in adt['variants']]
                return EnumV(base, None, sym=('a', name), ty=nty)
        if nty.startswith('(') and nty.endswith(')'):
            _, parts = split_generics('T<' + nty[1:-1] + '>')
            return TupleV([self.sym_value(p, '%s.%d' % (name, i)) for i, p in enumerate(parts)])
        return DynV(('a', name), ty=nty)

    def type_of_path(self, path):
        """static type of an input path such as `q.resource_structure[i]` (None when unknown)"""
        m = re.match(r'^(\w+)(.*)$', path)
        if not m or m.group(1) not in getattr(self, 'root_types', {}): return None
        ty = self.root_types[m.group(1)]; rest = m.group(2)
        while rest:
            ty = norm_ty(strip_refs(ty))
            if rest.startswith('[i]'):
                rest = rest[3:].lstrip("'")
                base, args = split_generics(ty)
                mm = re.match(r'^\[(.*?)(; \d+)?\]$', ty)
                if base == 'alloc::vec::Vec' and args: ty = args[0]
                elif mm: ty = mm.group(1)
                else: return None
                continue
            mm = re.match(r'^\.(\w+)(.*)$', rest)
            if not mm: return None
            fld, rest = mm.group(1), mm.group(2)
            base, args = split_generics(ty)
            if base == 'core::option::Option' and fld == 'Some':
                ty = args[0]
                mm2 = re.match(r'^\.0(.*)$', rest)
                rest = mm2.group(1) if mm2 else rest
                continue
            if base == 'alloc::boxed::Box' and args: ty = args[0]; base, args = split_generics(ty)
            adt = self.f.adt(base)
            if not adt or adt['kind'] != 'Struct': return None
            fd = [x for x in adt['variants'][0]['fields'] if x['name'] == fld]
            if not fd: return None
            ty = fd[0]['ty']
        return norm_ty(strip_refs(ty))

    def enum_payload(self, ev, variant, field):
        """symbolic payload of a symbolic enum value"""
        k = (variant, field)
        if k in ev.payload_cache: return ev.payload_cache[k]
        nm = '%s.%s.%s' % (show(ev.sym), variant, field)
        if ev.path == 'core::option::Option':
            _, args = split_generics(ev.ty)
            v = self.sym_value(args[0], nm)
        else:
            adt = self.f.adt(ev.path)
            fty = None
            if adt is None:
                v = self.top('payload of foreign enum ' + ev.path); ev.payload_cache[k] = v; return v
            for var in adt['variants']:
                if var['name'] == variant:
                    for fd in var['fields']:
                        if fd['name'] == field: fty = fd['ty']
            v = self.sym_value(fty, nm)
        ev.payload_cache[k] = v
        return v

    # -------------------------------------------------------------- layout bytes
    def as_bytes(self, v, ty, e=None):
        """layout bytes of a value -> list of segments, or Top"""
        ty = norm_ty(strip_refs(self.resolve_ty(ty)))
        if isinstance(v, RefV): v = v.place.get()
        if isinstance(v, Top): return v
        b = int_bits(ty)
        if is_term(v):
            if b: return [('int', v, b // 8)]
            if ty == 'bool': return [('int', v, 1)]
            if ty in ZC_BE: return self.top('big-endian field type ' + ty, e)
            adt = self.f.adt(ty)
            if adt and adt['kind'] == 'Enum' and 'size' in adt:
                return [('int', v, adt['size'])]
            return self.top('as_bytes of term with type ' + ty, e)
        if isinstance(v, SeqV):
            if v.is_bytes():
                if v.stores: return self.top('as_bytes of stored-to sequence', e)
                return list(v.segs)
            out = []
            for s in v.segs:
                if s[0] == 'elem':
                    r = self.as_bytes(s[1], v.elem, e)
                    if isinstance(r, Top): return r
                    out.extend(r)
                elif s[0] == 'sym' and is_term(s[1]):
                    # the bytes of a symbolic vector of fixed-layout elements: one repetition of the element's bytes
                    nm_ = show(s[1]) + '[i]'
                    n_t = len(self.tops)
                    r = self.as_bytes(self.sym_value(v.elem, nm_), v.elem, e)
                    if isinstance(r, Top) or len(self.tops) != n_t: return r if isinstance(r, Top) else self.top('as_bytes of symbolic non-byte sequence', e)
                    out.append(('rep', ('len', s[1]), nm_, tuple(r)))
                else:
                    return self.top('as_bytes of symbolic non-byte sequence', e)
            return out
        if isinstance(v, EnumV):
            adt = self.f.adt(v.path)
            if adt and all(not var['fields'] for var in adt['variants']) and 'size' in adt:
                return [('int', self.discr_of(v), adt['size'])]
            return self.top('as_bytes of data-carrying enum ' + v.path, e)
        if isinstance(v, StructV):
            adt = self.f.adt(v.path)
            if not adt or 'size' not in adt: return self.top('no layout for ' + v.path, e)
            fds = sorted(adt['variants'][0]['fields'], key=lambda fd: fd['off'])
            out = []; pos = 0
            for fd in fds:
                if fd['off'] != pos: return self.top('padding in %s before %s' % (v.path, fd['name']), e)
                r = self.as_bytes(v.fields[fd['name']], fd['ty'], e)
                if isinstance(r, Top): return r
                out.extend(r); pos += fd['size']
            if pos != adt['size']: return self.top('trailing padding in ' + v.path, e)
            return out
        if isinstance(v, DynV):
            return [('raw', ('call', 'asbytes', v.name), ('call', 'size_of_val', v.name))]
        return self.top('as_bytes of %r' % (v,), e)

    def discr_of(self, v):
        if v.variant is None: return ('discr', v.sym)
        adt = self.f.adt(v.path)
        for var in adt['variants']:
            if var['name'] == v.variant: return C(var['discr'])
        return self.top('discriminant of %s::%s' % (v.path, v.variant))

    # -------------------------------------------------------------- sequences
    def seq_len(self, s):
        return seqlen(s.segs)

    def seq_get(self, s, idx):
        # newest store first
        for (i, v) in reversed(s.stores):
            if isinstance(i, tuple) and i[0] == 'range':
                # an interval write [lo, hi): decided when the index provably lies outside it, or inside at a known place
                lo_, hi_ = i[1], i[2]
                if is_term(lo_) and is_term(hi_):
                    if cmp('lt', idx, lo_) == TRUE or cmp('le', hi_, idx) == TRUE: continue
                    if lo_[0] == 'c' and idx[0] == 'c' and cmp('le', lo_, idx) == TRUE and cmp('lt', idx, hi_) == TRUE:
                        tmp = SeqV(s.elem, list(v)); r_ = self.base_get(tmp, C(idx[1] - lo_[1]))
                        if not isinstance(r_, Top): return r_
                if s.is_bytes() and is_term(idx):
                    # undecided whether the interval write covers the position: the byte keeps the name the byte-sum
                    # machinery gives it ("position idx of this sequence after these stores"), an opaque value
                    k_ = len(s.stores) - list(reversed(s.stores)).index((i, v))
                    return stored_get(tuple(s.segs), list(s.stores[:k_]), idx)
                return self.top('read of range-stored sequence')
            if isinstance(i, tuple) and i[0] == 'within': return self.top('read of a sequence after an in-place move')
            c = cmp('eq', i, idx)
            if c == TRUE: return v
            if c == FALSE: continue
            rest = SeqV(s.elem, s.segs); rest.stores = s.stores[:s.stores.index((i, v))]
            older = self.seq_get(rest, idx)
            if is_term(v) and is_term(older): return ite(c, v, older)
            return self.top('aliasing store with non-scalar element')
        return self.base_get(s, idx)

    def base_get(self, s, idx):
        if idx[0] == 'c':
            pos = 0
            for sg in s.segs:
                l = seglen(sg)
                if l[0] != 'c':
                    # a piece of symbolic length: the index is inside it when the length provably exceeds the remaining offset
                    if sg[0] in ('raw', 'sym') and rng(l)[0] > idx[1] - pos:
                        if sg[0] == 'raw' or s.is_bytes() or int_bits(s.elem):
                            sym.SEL_RANGE.setdefault(sg[1], (0, 255 if (sg[0] == 'raw' or s.is_bytes()) else (1 << (int_bits(s.elem) or 8)) - 1))
                            return ('sel', sg[1], C(idx[1] - pos))
                    break
                if pos <= idx[1] < pos + l[1]:
                    if sg[0] == 'elem': return sg[1]
                    if sg[0] == 'int':
                        if sg[2] == 1: return sg[1]
                        return band(shr(sg[1], C(8 * (idx[1] - pos))), C(0xff)) if sg[1][0] != 'c' else C((sg[1][1] >> (8 * (idx[1] - pos))) & 0xff)
                    if sg[0] == 'fill': return sg[2]
                    if sg[0] == 'raw':
                        r = ('sel', sg[1], C(idx[1] - pos)); sym.SEL_RANGE[sg[1]] = (0, 255); return r
                    if sg[0] == 'rep' and sg[2] is None and len(sg[3]) == 1 and sg[3][0][0] == 'int' and sg[3][0][2] == 1: return sg[3][0][1]
                    break
                pos += l[1]
        # symbolic index: only single-segment sequences
        if len(s.segs) == 1:
            sg = s.segs[0]
            if sg[0] == 'fill': return sg[2]
            if sg[0] == 'rep' and sg[2] is None and len(sg[3]) == 1 and sg[3][0][0] == 'int' and sg[3][0][2] == 1: return sg[3][0][1]
            if sg[0] in ('sym', 'raw'):
                ri = self.range_index.get(idx)
                if ri is not None and ri[0] == sg[1] and len(s.segs) == 1:
                    return self.sym_value(s.elem, ri[1])
                if s.is_bytes() or int_bits(s.elem) or s.elem == 'char':
                    b = 8 if s.is_bytes() else (int_bits(s.elem) or 21)
                    sym.SEL_RANGE[sg[1]] = (0, (1 << b) - 1)
                    return ('sel', sg[1], idx)
                return self.sym_value(s.elem, '%s[%s]' % (show(sg[1]), show(idx)))
        if s.name and (s.is_bytes() or int_bits(s.elem)) and len(s.segs) == 1 and s.segs[0][0] in ('sym', 'raw') and s.segs[0][1] == ('a', s.name):
            return ('sel', ('a', s.name), idx)
        return self.top('symbolic index %s into a sequence of several pieces %r' % (show(idx), s))

    def seq_set(self, s, idx, v):
        self.log.append(('mutate', 'index-store', None, getattr(s, 'uid', None)))
        s.stores.append((idx, v))

    def append_bytes(self, target, segs):
        """target: SeqV(u8) or OuterSink"""
        target.segs.extend(segs)

    # -------------------------------------------------------------- fork / merge
    def fork(self):
        memo = {}
        st2 = fcopy(self.st, memo)
        inv = {}
        for k, v in memo.items():
            if isinstance(v, (StructV, SeqV, EnumV, Cell, TupleV, OuterSink, Frame, FieldPlace)):
                inv[id(v)] = k   # id(copy) -> id(orig) ; we need objects: build table lazily
        return st2, memo

    def merge_into(self, A, branches):
        """branches: [(cond, state)] live branches in priority order (last one is 'else').
        Update A in place so that every place holds the join of the branch values."""
        # walk frames and roots in parallel
        def join(vals):
            # vals: [(cond, value)]; returns joined value
            if any(isinstance(v, Never) for _, v in vals):
                vals = [(c, v) for c, v in vals if not isinstance(v, Never)]
                if not vals: return NEVER
                vals = vals[:-1] + [(TRUE, vals[-1][1])]
            vs = [v for _, v in vals]
            first = vs[0]
            if all(is_term(v) for v in vs):
                r = vs[-1]
                for c, v in reversed(vals[:-1]): r = ite(c, v, r)
                return r
            if all(v is UNIT or isinstance(v, Unit) for v in vs): return UNIT
            if all(isinstance(v, SeqV) for v in vs) and all(v.elem == first.elem for v in vs):
                if all(v.segs == first.segs and v.stores == first.stores for v in vs): return first
                if any(v.stores for v in vs):
                    # buffers filled in place differently per branch: their contents after the stores, when these resolve
                    fl = [flatten_stores(v) if v.stores else list(v.segs) for v in vs] if first.is_bytes() else None
                    if fl is None or any(x is None for x in fl):
                        if all(v.segs == first.segs for v in vs):
                            return self.top('join of differently-stored sequences')
                        return self.top('join of stored sequences')
                    vs = [SeqV(first.elem, norm_segs(x), name=v.name) for x, v in zip(fl, vs)]
                    vals = [(c, nv) for (c, _), nv in zip(vals, vs)]
                    first = vs[0]
                # common prefix
                n = 0
                while all(len(v.segs) > n for v in vs) and all(v.segs[n] == first.segs[n] for v in vs): n += 1
                rest = tuple(vs[-1].segs[n:])
                for c, v in reversed(vals[:-1]):
                    rest = (('cond', c, tuple(v.segs[n:]), rest),)
                r = SeqV(first.elem, list(first.segs[:n]) + norm_segs(list(rest)), name=first.name)
                return r
            if all(isinstance(v, OuterSink) for v in vs):
                n = 0
                while all(len(v.segs) > n for v in vs) and all(v.segs[n] == first.segs[n] for v in vs): n += 1
                rest = tuple(vs[-1].segs[n:])
                for c, v in reversed(vals[:-1]):
                    rest = (('cond', c, tuple(v.segs[n:]), rest),)
                first.segs = list(first.segs[:n]) + norm_segs(list(rest))
                return first
            if all(isinstance(v, StructV) for v in vs) and all(v.path == first.path for v in vs):
                return StructV(first.path, {k: join([(c, v.fields[k]) for c, v in vals]) for k in first.fields}, first.ty)
            if all(isinstance(v, EnumV) for v in vs) and all(v.path == first.path for v in vs):
                if all(v.variant == first.variant and v.variant is not None for v in vs):
                    return EnumV(first.path, first.variant, {k: join([(c, v.fields[k]) for c, v in vals]) for k in first.fields}, ty=first.ty)
                if all(v.variant is None and v.sym == first.sym for v in vs): return first
                if all(not v.fields for v in vs):
                    d = join([(c, self.discr_of(v)) for c, v in vals])
                    nm = ('a', self.fresh_name('enumjoin'))
                    ev = EnumV(first.path, None, sym=nm, ty=first.ty); ev.discr_term = d
                    return ev
                if first.path == 'core::option::Option' and all(v.variant in ('Some', 'None') for v in vs):
                    # Some on some paths, None on others: an Option whose presence condition is the disjunction of the Some-paths
                    cond = FALSE; rest = TRUE; pay = []
                    for c, v in vals:
                        here = b_and(rest, c)
                        if v.variant == 'Some': cond = b_or(cond, here); pay.append((c, v.fields['0']))
                        rest = b_and(rest, bnot(c))
                    ev = EnumV(first.path, None, sym=('a', self.fresh_name('optjoin')), ty=first.ty)
                    ev.some_cond = cond
                    if pay:
                        pay[-1] = (TRUE, pay[-1][1])
                        pv = join(pay)
                        if isinstance(pv, Top): return pv
                        ev.payload_cache[('Some', '0')] = pv
                    return ev
                if first.path == 'core::result::Result' and all(v.variant in ('Ok', 'Err') for v in vs):
                    # Ok on some paths, Err on others (a private helper written with `?`): a Result that is Ok under the
                    # disjunction of the Ok-paths; the error payload only travels to the caller and is kept opaque
                    cond = FALSE; rest = TRUE; pay = []
                    for c, v in vals:
                        here = b_and(rest, c)
                        if v.variant == 'Ok': cond = b_or(cond, here); pay.append((c, v.fields['0']))
                        rest = b_and(rest, bnot(c))
                    ev = EnumV(first.path, None, sym=('a', self.fresh_name('resjoin')), ty=first.ty)
                    ev.some_cond = cond; ev.ok_variant = 'Ok'
                    if pay:
                        pay[-1] = (TRUE, pay[-1][1])
                        pv = join(pay)
                        if isinstance(pv, Top): return pv
                        ev.payload_cache[('Ok', '0')] = pv
                    ev.payload_cache[('Err', '0')] = ('a', self.fresh_name('err'))
                    return ev
                return self.top('join of different enum variants of ' + first.path)
            if all(isinstance(v, TupleV) for v in vs) and all(len(v.items) == len(first.items) for v in vs):
                return TupleV([join([(c, v.items[i]) for c, v in vals]) for i in range(len(first.items))])
            if all(isinstance(v, RefV) for v in vs):
                # the same place in every branch (place identities survive the per-branch state copies)
                if all(place_key(v.place) == place_key(first.place) for v in vs): return first
                # shared references to branch-local temporaries / different views: join what they refer to
                if not any(v.mut for v in vs):
                    pointees = [(c, v.place.get()) for c, v in vals]
                    if all(isinstance(pv, (StructV, EnumV, DynV)) for _, pv in pointees) and len({getattr(pv, 'path', None) or repr(getattr(pv, 'name', None)) for _, pv in pointees}) > 1:
                        # shared references to objects of different types (a `&dyn Trait` picked by a match): a choice
                        r_ = RefV(Cell(ChoiceV(pointees)))
                        if any(getattr(v, 'src_ty', None) for v in vs): r_.src_tys = [getattr(v, 'src_ty', None) for v in vs]
                        return r_
                    j = join(pointees)
                    if not isinstance(j, Top): return RefV(Cell(j))
                return self.top('join of references to different places')
            if all(isinstance(v, (SliceV, SeqV)) for v in vs) and any(isinstance(v, SliceV) for v in vs):
                base = lambda v: v.seq if isinstance(v, SliceV) else v
                if all(isinstance(base(v), SeqV) and base(v).uid == base(first).uid and not base(v).stores and base(v).segs == base(first).segs for v in vs):
                    lo = join([(c, v.lo if isinstance(v, SliceV) else ZERO) for c, v in vals])
                    his = [(c, (v.hi if v.hi is not None else seqlen(v.seq.segs)) if isinstance(v, SliceV) else seqlen(v.segs)) for c, v in vals]
                    hi = join(his)
                    return SliceV(base(first), lo, hi)
                return self.top('join of views of different sequences')
            if all(isinstance(v, DynV) for v in vs) and all(v.name == first.name for v in vs): return first
            if all(isinstance(v, RangeV) for v in vs):
                if all((v.hi is None) == (first.hi is None) for v in vs):
                    return RangeV(join([(c, v.lo) for c, v in vals]), None if first.hi is None else join([(c, v.hi) for c, v in vals]))
                return self.top('join of open and closed ranges')
            if all(isinstance(v, ClosureV) for v in vs) and all(v.d == first.d for v in vs): return first
            if all(isinstance(v, IterV) for v in vs):
                if all(v.kind == first.kind and v.by_ref == first.by_ref and len(v.maps) == len(first.maps) and v.enum == first.enum
                       and getattr(self.sink_target(v.seq), 'uid', None) == getattr(self.sink_target(first.seq), 'uid', 0) for v in vs): return first
                return self.top('join of different iterators')
            for v in vs:
                if isinstance(v, Top): return v
            return self.top('join of %s' % ', '.join(type(v).__name__ for v in vs))
        self._join = join
        # frames
        for fi, fr in enumerate(A.frames):
            for var, cell in fr.vars.items():
                vals = []
                for c, S in branches:
                    cl = S.frames[fi].vars.get(var)
                    if cl is None: break
                    vals.append((c, cl.v))
                else:
                    cell.v = self._assign_join(cell.v, join(vals))
        for ri, r in enumerate(A.roots):
            vals = [(c, S.roots[ri]) for c, S in branches]
            j = join(vals)
            self._assign_join(r, j)

    def _assign_join(self, old, new):
        """copy the joined value into the existing object graph where one exists (keeps references valid)"""
        if isinstance(old, StructV) and isinstance(new, StructV) and old.path == new.path:
            for k in old.fields:
                old.fields[k] = self._assign_join(old.fields[k], new.fields[k])
            return old
        if isinstance(old, SeqV) and isinstance(new, SeqV):
            old.segs = list(new.segs); old.stores = list(new.stores); return old
        if isinstance(old, OuterSink) and isinstance(new, OuterSink):
            old.segs = list(new.segs); return old
        if isinstance(old, RefV) and isinstance(new, RefV): return old
        if isinstance(old, EnumV) and isinstance(new, EnumV) and old.variant == new.variant and old.variant is not None:
            for k in old.fields: old.fields[k] = self._assign_join(old.fields[k], new.fields[k])
            return old
        return new

    def branch(self, conds_and_thunks, carry=None):
        """conds_and_thunks: [(cond term, thunk)]; conditions are tested in order (first match wins);
        the last entry should have cond TRUE (else).  Returns the joined value."""
        A = self.st
        # constant-fold
        live = []
        for c, th in conds_and_thunks:
            if is_term(c): c = sym.as_cond(c)
            if c == FALSE: continue
            live.append((c, th))
            if c == TRUE: break
        if not live:
            A.dead = True; return UNIT
        if len(live) == 1 and live[0][0] == TRUE:
            return live[0][1](*carry) if carry is not None else live[0][1]()
        results = []
        neg = []   # negations of earlier conditions
        for c, th in live:
            memo_ = {}
            S = fcopy(A, memo_)
            self.st = S
            sym.CTX = S.ranges          # (conditions below are simplified in this branch's own context, not the previous one's)
            if carry is not None:
                # objects the thunk works on must be the ones of this branch's copy of the state
                th = (lambda th=th, tr=[fcopy(o, memo_) for o in carry]: th(*tr))
            for nc in neg:
                S.facts.append((bnot(nc), None)); sym.refine(bnot(nc), S.ranges)
            if c != TRUE:
                S.facts.append((c, None)); sym.refine(c, S.ranges)
            sym.CTX = S.ranges
            try:
                v = th()
            except Diverge:
                S.dead = True; v = UNIT
            except ReturnEx:
                # the function returns on this path but goes on on another: the two continuations cannot be joined here
                self.st = A; sym.CTX = A.ranges
                raise_top = self.top('early return under a condition that is not decided')
                return raise_top
            results.append((c, S, v))
            neg.append(c)
        self.st = A
        sym.CTX = A.ranges
        alive = [(c, S, v) for c, S, v in results if not S.dead]
        if not alive:
            A.dead = True
            return UNIT
        # facts: a dead branch's condition is refuted on the surviving path
        for c, S, v in results:
            if S.dead and c != TRUE:
                A.facts.append((bnot(c), None)); sym.refine(bnot(c), A.ranges)
        # `return` executed in some branches (flag form): the activation has returned under the disjunction of those paths
        fi_ = len(A.frames) - 1
        if fi_ >= 0 and any(len(S.frames) > fi_ and S.frames[fi_].returned is not None for _, S, _ in alive):
            rc = FALSE; rv = []
            for c, S, v in reversed(alive):
                fr_ = S.frames[fi_]
                r_ = fr_.returned if fr_.returned is not None else FALSE
                rc = r_ if c == TRUE else b_or(b_and(c, r_), b_and(bnot(c), rc))
            for c, S, v in alive:
                for (cc, vv) in S.frames[fi_].ret_vals: rv.append((b_and(c, cc) if c != TRUE else cc, vv))
            A.frames[fi_].returned = rc if rc != FALSE else None
            A.frames[fi_].ret_vals = rv
        # `continue` taken in some branches: the iteration has ended under the disjunction of those paths
        if any(S.skip is not None for _, S, _ in alive):
            sk = FALSE
            for c, S, v in reversed(alive):
                s_ = S.skip if S.skip is not None else FALSE
                sk = s_ if c == TRUE else b_or(b_and(c, s_), b_and(bnot(c), sk))
            A.skip = sk if sk != FALSE else None
        if len(alive) == 1:
            c, S, v = alive[0]
            self.merge_into(A, [(TRUE, S)])
            # keep the facts learnt inside the only live branch
            for f in S.facts:
                if f not in A.facts: A.facts.append(f)
            A.ranges.update(S.ranges); sym.CTX = A.ranges
            return v
        # effective conditions: cond_i and not any earlier *live or dead* condition is implied by order;
        # since dead branches are refuted on the live path, ordering among live ones is kept by nesting.
        br = [(c, S) for c, S, v in alive]
        br[-1] = (TRUE, br[-1][1])
        self.merge_into(A, br)
        vals = [(c, v) for c, S, v in alive]
        vals[-1] = (TRUE, vals[-1][1])
        return self._join(vals)

    # -------------------------------------------------------------- patterns
    def bind(self, pat, v, place=None):
        """irrefutable binding of pattern to value"""
        k = pat['k']
        if k == 'Binding':
            mode = pat['mode']
            if 'Yes' in mode or 'ref' in mode.lower() and 'ByRef::No' not in mode and 'No' not in mode:
                # by-reference binding
                if place is None: place = Cell(v)
                self.frame().vars[pat['var']] = Cell(RefV(place, 'Mut' in mode.split(',')[0]))
            else:
                self.frame().vars[pat['var']] = Cell(v)
            if 'sub' in pat: self.bind(pat['sub'], v, place)
            return
        if k in ('Wild', 'Missing', 'Constant', 'Range'): return
        if k == 'SliceOrArray' and 'prefix' in pat:
            # `let [a, b] = x.to_le_bytes();` / `[first, rest @ ..]`: elements by position (the length is fixed by the type
            # for arrays; for slices the match condition has already established it)
            sv_ = v
            while isinstance(sv_, RefV): sv_ = sv_.place.get()
            by_ref = isinstance(v, RefV)
            if isinstance(sv_, SliceV):
                r_ = self.slice_segs(sv_)
                sv_ = SeqV(sv_.seq.elem, r_) if r_ is not None else None
            if not isinstance(sv_, SeqV): self.top('array pattern on %r' % (v,)); return
            total = seqlen(sv_.segs)
            pre, suf = pat.get('prefix', []), pat.get('suffix', [])
            if total[0] != 'c' and (suf or 'slice' in pat and suf): self.top('array pattern with a suffix on a sequence of symbolic length'); return
            def elem(i_):
                r_ = self.seq_get(sv_, i_)
                return RefV(Cell(r_)) if by_ref and not isinstance(r_, RefV) else r_
            for i_, q in enumerate(pre): self.bind(q, elem(C(i_)))
            for j_, q in enumerate(suf): self.bind(q, elem(sub(total, C(len(suf) - j_))))
            if 'slice' in pat and pat['slice'].get('k') not in ('Wild', None):
                self.bind(pat['slice'], RefV(Cell(SliceV(sv_, C(len(pre)), sub(total, C(len(suf)))))))
            return
        if k == 'Deref':
            if isinstance(v, RefV): return self.bind(pat['sub'], v.place.get(), v.place)
            return self.bind(pat['sub'], v, place)
        if k == 'Leaf' or k == 'Variant':
            for s in pat['subs']:
                if isinstance(v, TupleV):
                    self.bind(s['pat'], v.items[int(s['field'])])
                elif isinstance(v, StructV):
                    self.bind(s['pat'], v.fields[s['field']], FieldPlace(v, s['field']))
                elif isinstance(v, EnumV):
                    if v.variant is None:
                        if s['pat'].get('k') == 'Wild': continue
                        self.bind(s['pat'], self.enum_payload(v, pat.get('variant'), s['field']))
                    else:
                        self.bind(s['pat'], v.fields[s['field']], FieldPlace(v, s['field']))
                else:
                    self.bind(s['pat'], self.top('destructure %r' % (v,)))
            return
        self.top('bind pattern ' + k)

    def matches(self, pat, v):
        """condition term under which pattern matches value"""
        k = pat['k']
        if k in ('Binding',):
            if 'sub' in pat: return self.matches(pat['sub'], v)
            return TRUE
        if k in ('Wild', 'Missing'): return TRUE
        if k == 'SliceOrArray' and 'prefix' in pat:
            sv_ = v
            while isinstance(sv_, RefV): sv_ = sv_.place.get()
            if isinstance(sv_, SliceV):
                r_ = self.slice_segs(sv_)
                sv_ = SeqV(sv_.seq.elem, r_) if r_ is not None else None
            if not isinstance(sv_, SeqV): return self.top_cond('array pattern on a non-sequence')
            total = seqlen(sv_.segs)
            pre, suf = pat.get('prefix', []), pat.get('suffix', [])
            n_ = len(pre) + len(suf)
            c = TRUE if pat.get('array') else (cmp('le', C(n_), total) if 'slice' in pat else cmp('eq', total, C(n_)))
            if c == FALSE: return FALSE
            for i_, q in enumerate(pre):
                if q.get('k') not in ('Wild', 'Binding') or 'sub' in q: c = b_and(c, self.matches(q, self.seq_get(sv_, C(i_))))
            for j_, q in enumerate(suf):
                if q.get('k') not in ('Wild', 'Binding') or 'sub' in q: c = b_and(c, self.matches(q, self.seq_get(sv_, sub(total, C(len(suf) - j_)))))
            return c
        if k == 'Deref':
            if isinstance(v, RefV): return self.matches(pat['sub'], v.place.get())
            return self.matches(pat['sub'], v)
        if k == 'Constant':
            if is_term(v): return cmp('eq', v, C(pat['value'])) if isinstance(pat['value'], int) else ('call', 'patconst', v)
            return self.top_cond('constant pattern on %r' % (v,))
        if k == 'Range':
            if is_term(v) and (pat.get('lo') is not None or pat.get('lo_inf')) and (pat.get('hi') is not None or pat.get('hi_inf')):
                c = TRUE
                if pat.get('lo') is not None: c = b_and(c, cmp('le', C(pat['lo']), v))
                if pat.get('hi') is not None: c = b_and(c, cmp('le', v, C(pat['hi'])) if pat.get('inclusive') else cmp('lt', v, C(pat['hi'])))
                return c
            return self.top_cond('range pattern on %r' % (v,))
        if k == 'Variant':
            if isinstance(v, EnumV):
                if v.variant is not None:
                    if v.variant != pat['variant']: return FALSE
                    c = TRUE
                    for s in pat['subs']: c = b_and(c, self.matches(s['pat'], v.fields[s['field']]))
                    return c
                dt = getattr(v, 'discr_term', None)
                if dt is not None:
                    adt = self.f.adt(v.path)
                    for var in adt['variants']:
                        if var['name'] == pat['variant']: return cmp('eq', dt, C(var['discr']))
                c = ('isvar', v.sym, pat['variant'])
                if v.path == 'core::option::Option' and pat['variant'] == 'None': c = bnot(('isvar', v.sym, 'Some'))
                adt_ = self.f.adt(v.path)
                if adt_ and adt_.get('kind') == 'Enum':
                    names_ = [vv['name'] for vv in adt_['variants']]
                    sym.ENUM_VARIANTS[v.sym] = len(names_)
                    # a two-variant enum has one test: the second variant is the negation of the first
                    if len(names_) == 2 and pat['variant'] == names_[1]: c = bnot(('isvar', v.sym, names_[0]))
                if getattr(v, 'some_cond', None) is not None: c = v.some_cond if pat['variant'] in ('Some', 'Ok', 'Continue') else bnot(v.some_cond)
                for s in pat['subs']:
                    if s['pat'].get('k') == 'Wild': continue
                    sc = self.matches(s['pat'], self.enum_payload(v, pat['variant'], s['field']))
                    c = b_and(c, sc)
                return c
            return self.top_cond('variant pattern on %r' % (v,))
        if k == 'Leaf':
            c = TRUE
            for s in pat['subs']:
                if isinstance(v, TupleV): sv = v.items[int(s['field'])]
                elif isinstance(v, StructV): sv = v.fields[s['field']]
                else: return self.top_cond('leaf pattern on %r' % (v,))
                c = b_and(c, self.matches(s['pat'], sv))
            return c
        if k == 'Or':
            c = FALSE
            for q in pat['pats']: c = b_or(c, self.matches(q, v))
            return c
        return self.top_cond('pattern kind ' + k)

    def top_cond(self, reason):
        self.tops.append((reason, None))
        return ('a', self.fresh_name('topcond'))

    # -------------------------------------------------------------- expressions
    def eval(self, e):
        if self.st.dead: return UNIT
        k = e['k']
        m = getattr(self, 'e_' + k, None)
        if m is None: return self.top('expression kind ' + k, e)
        if k in ('Binary', 'Unary', 'Cast', 'AssignOp', 'Index'):
            try:
                return m(e)
            except (TypeError, AttributeError, IndexError) as ex:
                return self.top('operands outside the model of %s (%s)' % (k, type(ex).__name__), e)
        return m(e)

    def place(self, e):
        """evaluate a place expression to something with get()/set()"""
        k = e['k']
        if k == 'Var':
            fr = self.frame()
            if e['var'] in fr.vars: return fr.vars[e['var']]
            c = Cell(self.top('unbound variable ' + e['name'], e)); return c
        if k == 'Upvar':
            fr = self.frame()
            if e['var'] in fr.upvars:
                r = fr.upvars[e['var']]
                return r
            return Cell(self.top('unbound upvar ' + e['name'], e))
        if k == 'Field':
            base = self.place(e['lhs']).get()
            if isinstance(base, RefV): base = base.place.get()
            if isinstance(base, (StructV,)):
                if e['name'] not in base.fields: return Cell(self.top('no field ' + e['name'], e))
                return FieldPlace(base, e['name'])
            if isinstance(base, EnumV) and base.variant is not None: return FieldPlace(base, e['name'])
            if isinstance(base, TupleV):
                i = int(e['name']);
                class TP:
                    def get(s): return base.items[i]
                    def set(s, v): base.items[i] = v
                return TP()
            if isinstance(base, Top): return Cell(base)
            return Cell(self.top('field %s of %r' % (e['name'], base), e))
        if k == 'Deref':
            v = self.eval(e['arg'])
            if isinstance(v, RefV): return v.place
            if isinstance(v, Top): return Cell(v)
            # Box<T> deref / smart pointers are transparent
            return Cell(v)
        if k == 'Index':
            base = self.place(e['lhs']).get()
            if isinstance(base, RefV): base = base.place.get()
            idx = self.eval(e['index'])
            if isinstance(base, SeqV):
                if isinstance(idx, RangeV):
                    return Cell(SliceV(base, idx.lo, idx.hi))
                if is_term(idx): return IndexPlace(self, base, idx)
            if isinstance(base, SliceV) and isinstance(base.seq, SeqV) and is_term(base.lo):
                if isinstance(idx, RangeV) and is_term(idx.lo) and (idx.hi is None or is_term(idx.hi)):
                    return Cell(SliceV(base.seq, add(base.lo, idx.lo), add(base.lo, idx.hi) if idx.hi is not None else base.hi))
                if is_term(idx): return IndexPlace(self, base.seq, add(base.lo, idx))
            return Cell(self.top('index place', e))
        # rvalue used as place: temporary
        return Cell(self.eval(e))

    def e_Var(self, e): return self.place(e).get()
    def e_Upvar(self, e): return self.place(e).get()
    def e_Field(self, e): return self.place(e).get()
    def e_Index(self, e): return self.place(e).get()
    def e_Deref(self, e): return self.place(e).get()

    def e_Borrow(self, e):
        return RefV(self.place(e['arg']), e.get('mut', False))
    e_RawBorrow = e_Borrow

    def e_Lit(self, e):
        if 'int' in e: return C(e['int'])
        if 'bool' in e: return C(1 if e['bool'] else 0)
        if 'char' in e: return C(e['char'])
        if 'str' in e:
            bs = e['str'].encode()
            return RefV(Cell(SeqV('u8', [('int', C(b), 1) for b in bs])))
        if 'bytes' in e:
            return RefV(Cell(SeqV('u8', [('int', C(b), 1) for b in e['bytes']])))
        return self.top('literal', e)

    def _tree_value(self, tree, ty):
        """a structured constant (nested lists of integers) as an interpreter value of type `ty`"""
        ty = norm_ty(ty)
        if isinstance(tree, bool): return C(1 if tree else 0)
        if isinstance(tree, int): return C(tree)
        if not isinstance(tree, list): return None
        m = re.match(r'^\[(.*); (\d+)\]$', ty)
        if m:
            el = m.group(1)
            if el == 'u8' and all(isinstance(x, int) for x in tree): return SeqV('u8', [('int', C(x), 1) for x in tree])
            vals = [self._tree_value(x, el) for x in tree]
            if any(v is None for v in vals): return None
            return SeqV(el, [('elem', v) for v in vals])
        if ty.startswith('(') and ty.endswith(')'):
            parts = split_generics('X<%s>' % ty[1:-1])[1]
            if len(parts) != len(tree): return None
            vals = [self._tree_value(x, pt) for x, pt in zip(tree, parts)]
            if any(v is None for v in vals): return None
            return TupleV(vals)
        return None

    def e_Const(self, e):
        v = e.get('value')
        if v is None and e.get('trait') and e.get('generics'):
            # an associated const of a crate-local trait named through a type parameter (`Self::LEN` in a provided method):
            # the implementing type is known from the inlining context
            sty = norm_ty(self.resolve_ty(e['generics'][0]))
            base_ = sty.split('<')[0]
            cands = []
            for key, c in self.f.consts.items():
                m_ = re.match(r'^<(.+) as %s(?:<.*>)?>::%s$' % (re.escape(e['trait']), re.escape(e.get('name') or '')), key)
                if m_ and norm_ty(m_.group(1)).split('<')[0] == base_: cands.append(c)
            if not cands and self.f.consts.get('%s::%s' % (e['trait'], e.get('name'))) is not None:
                cands = [self.f.consts['%s::%s' % (e['trait'], e.get('name'))]]      # the trait's default value
            if len(cands) == 1 and cands[0].get('value') is not None:
                c = cands[0]
                return self.e_Const(dict(e, value=c['value'], trait=None, ty=self.resolve_ty(e.get('ty', c.get('ty', '')))))
            return self.top('associated constant %s of %s for %s' % (e.get('name'), e['trait'], sty), e)
        if isinstance(v, dict) and 'tree' in v and 'int' not in v:
            tv = self._tree_value(v['tree'], e['ty'])
            if tv is not None and not (isinstance(tv, SeqV) and tv.is_bytes() and 'bytes' in v): return tv
        if isinstance(v, dict):
            if 'int' in v: return C(v['int'])
            if 'bool' in v: return C(1 if v['bool'] else 0)
            if 'bytes' in v:
                ty = norm_ty(e['ty'])
                m = re.match(r'^\[u8; (\d+)\]$', ty)
                if m: return SeqV('u8', [('int', C(b), 1) for b in v['bytes']])
                m = re.match(r'^\[(u8|u16|u32|u64|usize|i8|i16|i32|i64|isize); (\d+)\]$', ty)
                if m:
                    w = int_bits(m.group(1)) // 8; n_ = int(m.group(2)); bs = bytes(v['bytes'])
                    if len(bs) == w * n_:
                        return SeqV(m.group(1), [('elem', C(int.from_bytes(bs[i * w:(i + 1) * w], 'little', signed=m.group(1).startswith('i')))) for i in range(n_)])
                b = int_bits(ty)
                if b: return C(int.from_bytes(bytes(v['bytes']), 'little'))
            if 'zst' in v:
                adt = self.f.adt(norm_ty(e['ty']))
                if adt and adt['kind'] == 'Struct': return StructV(adt['path'], {}, e['ty'])
        return self.top('constant %s' % e.get('path'), e)

    def e_Zst(self, e):
        adt = self.f.adt(norm_ty(e['ty']))
        if adt: return StructV(adt['path'], {}, e['ty'])
        if e.get('fn'): return FnItemV(e['fn'], self.resolve_ty(e['ty']))
        return self.top('zst', e)

    def e_Block(self, e, start=0):
        for k_, s in enumerate(e['stmts']):
            if k_ < start: continue
            if self.st.dead: return UNIT
            sk = self.st.skip
            rt_ = self.frame().returned if self.st.frames else None
            if rt_ is not None and sk is None:
                if rt_ == TRUE: return UNIT
                fr_ = self.frame(); saved_rv = list(fr_.ret_vals)
                def rest_r(e=e, k_=k_):
                    f2 = self.frame(); f2.returned = None; f2.ret_vals = []
                    return self.e_Block(e, k_)
                def gone_r():
                    f2 = self.frame(); f2.returned = TRUE; f2.ret_vals = [(TRUE, vv) for _, vv in saved_rv[-1:]] if len(saved_rv) == 1 else [(TRUE, self._join([(c_, v_) for c_, v_ in saved_rv[:-1]] + [(TRUE, saved_rv[-1][1])]))]
                    return NEVER
                return self.branch([(rt_, gone_r), (TRUE, rest_r)])
            if sk is not None:
                if sk == TRUE: return UNIT
                # some paths have left the iteration: the remaining statements run on the others only
                def rest(e=e, k_=k_):
                    self.st.skip = None
                    return self.e_Block(e, k_)
                def gone():
                    self.st.skip = TRUE
                    return UNIT
                return self.branch([(sk, gone), (TRUE, rest)])
            if s['k'] == 'Let':
                if 'init' in s:
                    v = self.eval(s['init'])
                    if 'else' in s:
                        # let PAT = v else { diverge }: the else block runs on the paths where the pattern does not match
                        # (it panics, returns or continues); the binding holds on the others
                        c_ = self.matches(s['pat'], v)
                        if isinstance(c_, Top) or not is_term(c_): self.top('let-else on an undecided pattern', s)
                        elif c_ != TRUE:
                            if self._diverges(s['else']):
                                self.guards.append({'cond': c_, 'sp': s.get('sp'), 'kind': 'assert'})
                                self.log.append(('guard', c_, s.get('sp')))
                            self.branch([(bnot(c_), lambda s=s: self.eval(s['else'])), (TRUE, lambda: UNIT)])
                            if self.st.dead: return UNIT
                            if c_ == FALSE: return NEVER       # the pattern never matches here: everything below is unreachable
                    self.bind(s['pat'], v)
                else:
                    self.bind(s['pat'], self.top('uninitialised let'))
            else:
                self.eval(s['e'])
        if self.st.dead: return UNIT
        sk = self.st.skip
        rt_ = self.frame().returned if self.st.frames else None
        if rt_ is not None and sk is None and 'expr' in e:
            if rt_ == TRUE: return UNIT
            fr_ = self.frame(); saved_rv = list(fr_.ret_vals)
            def rest_r2(e=e):
                f2 = self.frame(); f2.returned = None; f2.ret_vals = []
                return self.eval(e['expr'])
            def gone_r2():
                f2 = self.frame(); f2.returned = TRUE; f2.ret_vals = saved_rv
                return NEVER
            return self.branch([(rt_, gone_r2), (TRUE, rest_r2)])
        if sk is not None and 'expr' in e:
            if sk == TRUE: return UNIT
            def rest2(e=e):
                self.st.skip = None
                return self.eval(e['expr'])
            def gone2():
                self.st.skip = TRUE
                return UNIT
            return self.branch([(sk, gone2), (TRUE, rest2)])
        if 'expr' in e: return self.eval(e['expr'])
        return UNIT

    def e_Tuple(self, e):
        if not e['fields']: return UNIT
        return TupleV([self.eval(x) for x in e['fields']])

    def e_Array(self, e):
        vs = [self.eval(x) for x in e['fields']]
        el = norm_ty(e['ty'])
        m = re.match(r'^\[(.*); (\d+)\]$', el)
        elem = m.group(1) if m else '?'
        if elem == 'u8':
            return SeqV('u8', [('int', v, 1) if is_term(v) else ('raw', ('a', self.fresh_name('topbyte')), ONE) for v in vs])
        return SeqV(elem, [('elem', v) for v in vs])

    def e_Repeat(self, e):
        v = self.eval(e['value'])
        m = re.match(r'^\[(.*); (\d+)\]$', norm_ty(e['ty']))
        elem = m.group(1) if m else '?'
        n = e['count']
        if not isinstance(n, int):
            # a const generic parameter: its value comes from the call that was inlined
            r_ = self.resolve_ty(str(n)).strip()
            if re.match(r'^\d+(_?usize)?$', r_): n = int(re.match(r'^(\d+)', r_).group(1))
            else: return self.top('repeat count', e)
            m = re.match(r'^\[(.*); (.*)\]$', norm_ty(self.resolve_ty(e['ty'])))
            elem = m.group(1) if m else elem
        if elem == 'u8' and is_term(v):
            if n <= 64: return SeqV('u8', [('int', v, 1)] * n)
            return SeqV('u8', [('rep', C(n), None, (('int', v, 1),))])
        return SeqV(elem, [('elem', fcopy(v)) for _ in range(n)])

    def e_Adt(self, e):
        fields = {}
        for f in e['fields']: fields[f['name']] = self.eval(f['e'])
        path = e['adt']
        if 'base' in e:
            b = self.eval(e['base'])
            if isinstance(b, StructV):
                for k2, v2 in b.fields.items():
                    if k2 not in fields: fields[k2] = v2
            else:
                return self.top('struct base', e)
        if e['is_enum']:
            return EnumV(path, e['variant'], fields, ty=e['ty'])
        if path == 'core::ops::Range': return RangeV(fields['start'], fields['end'])
        if path == 'core::ops::RangeFrom': return RangeV(fields['start'], None)
        if path == 'core::ops::RangeTo': return RangeV(ZERO, fields['end'])
        return StructV(path, fields, e['ty'])

    def e_Closure(self, e):
        return ClosureV(e['def'], [self.eval(u) if u['k'] != 'Borrow' else RefV(self.place(u['arg']), u.get('mut', False)) for u in e['upvars']])

    def e_Coerce(self, e):
        v = self.eval(e['arg'])
        # unsizing to a trait object: remember the static type behind the reference (scalars carry no type of their own)
        if isinstance(v, RefV) and 'dyn ' in (e.get('ty') or '') and isinstance(e.get('arg'), dict):
            st = strip_refs(norm_ty(self.resolve_ty(e['arg'].get('ty', ''))))
            if st and 'dyn ' not in st and getattr(v, 'src_ty', None) is None:
                v = RefV(v.place, v.mut); v.src_ty = st
                # a re-borrow (&**x) makes a new reference to the same place: keep the type on the place of a temporary too
                try:
                    if getattr(v.place, 'src_ty', None) is None and not isinstance(v.place.get(), (StructV, EnumV)): v.place.src_ty = st
                except Exception:
                    pass
        return v

    def e_Cast(self, e):
        self.visited_casts.add(e.get('sp'))
        v = self.eval(e['arg'])
        to = norm_ty(e['ty']); frm = norm_ty(e['from'])
        if isinstance(v, EnumV):
            v = getattr(v, 'discr_term', None) if getattr(v, 'discr_term', None) is not None else self.discr_of(v)
            fb = 64
        else:
            fb = int_bits(frm) or (1 if frm == 'bool' else None) or (32 if frm == 'char' else None)
        if isinstance(v, Top):
            tb0 = int_bits(to); fb0 = int_bits(frm)
            if tb0 and fb0 and tb0 < fb0:
                self.casts.append({'from': frm, 'to': to, 'term': None, 'sp': e.get('sp'), 'fits': False, 'top': v.reason, 'mac': e.get('mac'), 'fn': self.frame().d, 'facts': [], 'expr': _pe(e['arg'])})
            return v
        tb = int_bits(to)
        if not is_term(v) or tb is None:
            return self.top('cast %s -> %s' % (frm, to), e)
        lo, hi = rng(v)
        if tb >= 64 and lo >= 0 and hi >= (1 << tb):
            # usize/u64 byte totals and counts: bounded by addressable memory (informational, DESIGN C18)
            self.casts.append({'from': frm, 'to': to, 'term': v, 'sp': e.get('sp'), 'fits': True, 'capacity': True, 'mac': e.get('mac'), 'fn': self.frame().d, 'facts': [c for c, _ in self.st.facts], 'expr': _pe(e['arg'])})
            return v
        fits = lo >= 0 and hi < (1 << tb)
        if fb is None or tb < (fb or 0) or isinstance(v, tuple) and not fits:
            self.casts.append({'from': frm, 'to': to, 'term': v, 'sp': e.get('sp'), 'fits': fits, 'mac': e.get('mac'), 'fn': self.frame().d, 'facts': [c for c, _ in self.st.facts], 'expr': _pe(e['arg'])})
        return trunc(v, tb)

    def e_Unary(self, e):
        v = self.eval(e['arg'])
        if isinstance(v, Top): return v
        if e['op'] == 'Not':
            ty = norm_ty(e['ty'])
            if ty == 'bool': return bnot(v)
            b = int_bits(ty)
            return sub(C((1 << b) - 1), v)
        if e['op'] == 'Neg': return neg(v)
        return self.top('unary ' + e['op'], e)

    def arith(self, op, a, b, ty, e):
        if isinstance(a, Top) or isinstance(b, Top):
            tp = a if isinstance(a, Top) else b
            if op in ('Add', 'Sub', 'Mul') and ty and int_bits(norm_ty(ty)):
                self.visited_arith.add(e.get('sp') if isinstance(e, dict) else None)
                self.arith_sites.append({'op': op, 'ty': norm_ty(ty), 'term': None, 'top': tp.reason, 'sp': e.get('sp') if isinstance(e, dict) else None, 'fn': self.frame().d,
                                         'lo': 0, 'hi': 0, 'facts': [], 'expr': _pe(e) if isinstance(e, dict) else ''})
            return tp
        if isinstance(a, RefV): a = a.place.get()
        if isinstance(b, RefV): b = b.place.get()
        if not (is_term(a) and is_term(b)):
            if op in ('Eq', 'Ne'):
                c = self.struct_eq(a, b)
                if c is not None: return c if op == 'Eq' else bnot(c)
            return self.top('arith %s on %r, %r' % (op, a, b), e)
        bits = int_bits(norm_ty(ty)) if ty else None
        if op in ('Add', 'Sub', 'Mul') and bits:
            r = add(a, b) if op == 'Add' else sub(a, b) if op == 'Sub' else mul(a, b)
            self.visited_arith.add(e.get('sp') if isinstance(e, dict) else None)
            lo, hi = rng(r)
            if (lo < 0 if op == 'Sub' else hi >= (1 << bits)):
                self.arith_sites.append({'op': op, 'ty': norm_ty(ty), 'term': r, 'lhs': a, 'rhs': b, 'sp': e.get('sp') if isinstance(e, dict) else None, 'fn': self.frame().d,
                                         'lo': lo, 'hi': hi, 'facts': [c for c, _ in self.st.facts], 'expr': _pe(e) if isinstance(e, dict) else ''})
            return r
        if op in ('Add', 'AddUnchecked', 'AddWithOverflow'): return add(a, b)
        if op in ('Sub',): return sub(a, b)
        if op == 'Mul': return mul(a, b)
        if op == 'Div': return div(a, b)
        if op == 'Rem': return rem(a, b)
        if op == 'BitAnd': return band(a, b) if norm_ty(ty) != 'bool' else b_and(a, b)
        if op == 'BitOr': return bor(a, b) if norm_ty(ty) != 'bool' else b_or(a, b)
        if op == 'BitXor': return bxor(a, b)
        if op == 'Shl':
            r = shl(a, b)
            return trunc(r, bits) if bits else r
        if op == 'Shr': return shr(a, b)
        if op == 'Eq': return cmp('eq', a, b)
        if op == 'Ne': return cmp('ne', a, b)
        if op == 'Lt': return cmp('lt', a, b)
        if op == 'Le': return cmp('le', a, b)
        if op == 'Gt': return cmp('gt', a, b)
        if op == 'Ge': return cmp('ge', a, b)
        return self.top('binary op ' + op, e)

    def struct_eq(self, a, b):
        if isinstance(a, EnumV) and isinstance(b, EnumV):
            if a.variant is not None and b.variant is not None and not a.fields and not b.fields:
                return C(1 if a.variant == b.variant else 0)
            if a.variant is None and b.variant is not None and not b.fields:
                return ('isvar', a.sym, b.variant)
            if b.variant is None and a.variant is not None and not a.fields:
                return ('isvar', b.sym, a.variant)
        return None

    def e_Binary(self, e):
        a = self.eval(e['lhs']); b = self.eval(e['rhs'])
        return self.arith(e['op'], a, b, e['lhs']['ty'] if e['op'] in ('Shl', 'Shr') else e['ty'] if e['op'] not in ('Eq', 'Ne', 'Lt', 'Le', 'Gt', 'Ge') else e['lhs']['ty'], e)

    def e_Logical(self, e):
        a = self.eval(e['lhs']); b = self.eval(e['rhs'])
        if isinstance(a, Top): return a
        if isinstance(b, Top): return b
        return b_and(a, b) if e['op'] == 'And' else b_or(a, b)

    def e_Assign(self, e):
        if e['rhs'].get('k') == 'Cast':
            # `place = x as T;` is one MIR statement whose span is the whole assignment: the cast evaluated below is that site
            self.visited_casts.add(e.get('sp'))
        v = self.eval(e['rhs'])
        p = self.place(e['lhs'])
        if e['lhs'].get('k') != 'Var' and not isinstance(p, IndexPlace): self.log.append(('mutate', 'assign', e.get('sp'), getattr(getattr(p, 'obj', None), 'uid', None)))
        p.set(v)
        return UNIT

    def e_AssignOp(self, e):
        p = self.place(e['lhs'])
        old = p.get()
        rhs = self.eval(e['rhs'])
        op = e['op'].replace('Assign', '')
        p.set(self.arith(op, old, rhs, e['lhs']['ty'], e))
        return UNIT

    def e_Return(self, e):
        # `return v` on a path whose conditions were all decided: the enclosing function ends here with v
        v = self.eval(e['value']) if isinstance(e.get('value'), dict) else UNIT
        if self.st.frames and self.frame().loop_depth == 0:
            # outside loops an early return is followed under undecided conditions too: the activation is marked as
            # returned on this path and every remaining statement of the function runs on the other paths only
            fr = self.frame()
            fr.returned = TRUE; fr.ret_vals = [(TRUE, v)]
            return NEVER
        raise ReturnEx(v)

    def e_If(self, e):
        ce = e['cond']
        if ce['k'] == 'LetCond':
            v = self.eval(ce['e'])
            c = self.matches(ce['pat'], v)
            def then():
                self.bind(ce['pat'], v)
                return self.eval(e['then'])
        else:
            c = self.eval(ce)
            if isinstance(c, Top): c = self.top_cond('if on top')
            def then(): return self.eval(e['then'])
        def els():
            if 'else' in e: return self.eval(e['else'])
            return UNIT
        if self._diverges(e['then']) and c not in (TRUE, FALSE):
            self.guards.append({'cond': bnot(c), 'sp': e.get('cs') or e.get('sp'), 'kind': 'assert'})
            self.log.append(('guard', bnot(c), e.get('cs') or e.get('sp')))
        return self.branch([(c, then), (TRUE, els)])

    def _diverges(self, e):
        """syntactic: block/expr ending in a call to a panicking function"""
        if e['k'] == 'Block':
            last = e.get('expr') or (e['stmts'][-1].get('e') if e['stmts'] and e['stmts'][-1]['k'] == 'Expr' else None)
            return last is not None and self._diverges(last)
        if e['k'] == 'Call':
            return (e.get('callee') or '').startswith('core::panicking::') or e.get('ty') == '!'
        return False

    def e_Match(self, e):
        if e['source'] == 'ForLoopDesugar': return self.for_loop(e)
        v = self.eval(e['scrut'])
        sv = v
        arms = []
        # an or-pattern is one arm per alternative with the same body (each alternative binds the same names)
        def alts(p):
            if p.get('k') == 'Or': return [q for x in p['pats'] for q in alts(x)]
            if p.get('k') == 'Deref' and isinstance(p.get('sub'), dict) and p['sub'].get('k') == 'Or':
                return [dict(p, sub=q) for q in alts(p['sub'])]
            return [p]
        src_arms = []
        for arm in e['arms']:
            al = alts(arm['pat'])
            if len(al) == 1: src_arms.append(arm)
            else: src_arms.extend(dict(arm, pat=q) for q in al)
        for arm in src_arms:
            c = self.matches(arm['pat'], sv)
            def thunk(arm=arm):
                self.bind(arm['pat'], sv)
                if 'guard' in arm:
                    g = self.eval(arm['guard'])
                    # guard failure falls through to later arms: approximate by treating the guard as part of
                    # the arm condition (sound when guards are pure, which THIR shows: comparisons only)
                return self.eval(arm['body'])
            if 'guard' in arm:
                # evaluate guard in a scratch frame to get its condition
                saved = dict(self.frame().vars)
                self.bind(arm['pat'], sv)
                g = self.eval(arm['guard'])
                self.frame().vars = saved
                if isinstance(g, Top): g = self.top_cond('guard')
                c = b_and(c, g)
            if self._diverges(arm['body']) and c != FALSE:
                # the arm is reached when its pattern matches and no earlier arm did: the refusal is the negation of that
                # (a catch-all `_ => panic!()` refuses exactly what the earlier arms do not accept)
                ok_ = bnot(c)
                for pc, _ in arms:
                    if is_term(pc): ok_ = b_or(ok_, pc)
                if ok_ not in (TRUE, FALSE):
                    self.guards.append({'cond': ok_, 'sp': arm['body'].get('sp'), 'kind': 'panic-arm'})
                    self.log.append(('guard', ok_, arm['body'].get('sp')))
            arms.append((c, thunk))
        return self.branch(arms)

    def e_LetCond(self, e):
        v = self.eval(e['e'])
        return self.matches(e['pat'], v)

    def e_Loop(self, e):
        # `while let Some(PAT) = ITER.next() { BODY }`  ==  `for PAT in ITER { BODY }`
        b = e.get('body')
        while isinstance(b, dict) and b.get('k') == 'Block' and not b.get('stmts') and isinstance(b.get('expr'), dict): b = b['expr']
        if isinstance(b, dict) and b.get('k') == 'If' and b['cond'].get('k') == 'LetCond' and isinstance(b.get('else'), dict):
            els = b['else']
            while els.get('k') == 'Block' and not els.get('stmts') and isinstance(els.get('expr'), dict): els = els['expr']
            if els.get('k') == 'Block' and len(els.get('stmts', [])) == 1 and els['stmts'][0].get('k') == 'Expr' and 'expr' not in els: els = els['stmts'][0]['e']
            ce = b['cond']; call = ce['e']; pat = ce['pat']
            nm = (call.get('resolved') or call.get('callee') or '') if call.get('k') == 'Call' else ''
            if els.get('k') == 'Break' and 'value' not in els and (nm == 'core::iter::Iterator::next' or nm.endswith('as core::iter::Iterator>::next')) \
               and pat.get('k') == 'Variant' and pat.get('variant') == 'Some' and len(pat.get('subs', [])) == 1:
                itv = self.eval(call['args'][0])
                inner = pat['subs'][0]['pat']; body = b['then']
                def one(elem):
                    self.bind(inner, elem)
                    r = self.eval(body)
                    self.st.skip = None
                    return r
                self.frame().loop_depth += 1
                try:
                    self.iterate(itv, one, e)
                finally:
                    self.frame().loop_depth -= 1
                return UNIT
        if isinstance(b, dict) and b.get('k') == 'If' and b['cond'].get('k') != 'LetCond' and isinstance(b.get('else'), dict):
            # `while COND { BODY }`: unrolled as long as the condition is decided on the current path (bounded)
            els = b['else']
            while els.get('k') == 'Block' and not els.get('stmts') and isinstance(els.get('expr'), dict): els = els['expr']
            if els.get('k') == 'Block' and len(els.get('stmts', [])) == 1 and els['stmts'][0].get('k') == 'Expr' and 'expr' not in els: els = els['stmts'][0]['e']
            if els.get('k') == 'Break' and 'value' not in els:
                def run(n_, splits):
                    for _n in range(n_, 65):
                        if self.st.dead: return UNIT
                        c = self.eval(b['cond'])
                        if is_term(c): c = sym.as_cond(rebuild(c, lambda x: None))
                        if c == FALSE: return UNIT
                        if c != TRUE and is_term(c) and splits < 6:
                            # the condition depends on a choice made earlier (`n = if len < 63 { 1 } else ...`): the rest of
                            # the loop is evaluated once per case of the innermost undecided choice
                            cs = sorted((x for x in sym.cond_atoms(c) if not any(u[0] == 'ite' for u in sym.subterms(x))), key=sym.key)
                            if cs:
                                return self.branch([(cs[0], lambda: run(_n, splits + 1)), (TRUE, lambda: run(_n, splits + 1))])
                        if c != TRUE or _n == 64: return self.top('while loop whose condition is not decided on this path', e)
                        self.eval(b['then'])
                        if self.st.skip is not None and self.st.skip != TRUE: return self.top('conditional continue in an unrolled while loop', e)
                        self.st.skip = None
                    return UNIT
                self.frame().loop_depth += 1
                try:
                    return run(0, 0)
                finally:
                    self.frame().loop_depth -= 1
        return self.top('bare loop', e)
    def e_Break(self, e): return self.top('break', e)
    def e_Continue(self, e):
        # the rest of the iteration is skipped on this path; the enclosing blocks stop (or guard) their remaining statements
        if not self.st.frames or self.frame().loop_depth <= 0 or e.get('label_outer'): return self.top('continue outside a modelled loop', e)
        self.st.skip = TRUE
        return UNIT
    def e_Static(self, e): return self.top('static ' + e['path'], e)

    # -------------------------------------------------------------- loops
    def for_loop(self, e):
        """match[ForLoopDesugar] into_iter(ITER) { iter => loop { match next(&mut iter) { None => break, Some(PAT) => BODY } } }"""
        it = self.eval(e['scrut'])
        try:
            loop = e['arms'][0]['body']
            inner = loop['body']
            if inner['k'] == 'Block': inner = inner['stmts'][0]['e'] if inner['stmts'] else inner['expr']
            some = [a for a in inner['arms'] if a['pat'].get('variant') == 'Some'][0]
            pat = some['pat']['subs'][0]['pat']; body = some['body']
        except Exception:
            return self.top('unrecognised for-loop shape', e)
        def one(elem):
            self.bind(pat, elem)
            r = self.eval(body)
            self.st.skip = None          # a `continue` ends this iteration only
            return r
        self.frame().loop_depth += 1
        try:
            self.iterate(it, one, e)
        finally:
            self.frame().loop_depth -= 1
        return UNIT

    def iter_source(self, it):
        while isinstance(it, RefV): it = it.place.get()
        if isinstance(it, Top): return None, False
        if isinstance(it, IterV) and isinstance(it.seq, RangeV): it = it.seq
        if isinstance(it, RangeV) and it.hi is not None and is_term(it.lo) and is_term(it.hi):
            # lo..hi is the sequence of its own indices
            n_ = sub(it.hi, it.lo)
            if it.lo[0] == 'c' and it.hi[0] == 'c' and 0 <= n_[1] <= 64:
                return SeqV('usize', [('elem', C(i)) for i in range(it.lo[1], it.hi[1])]), False
            return SeqV('usize', [('range', it.lo, it.hi)]), False
        if isinstance(it, IterV):
            sq = it.seq
            while isinstance(sq, RefV): sq = sq.place.get()
            return (sq if isinstance(sq, (SeqV, SliceV)) else None), it.by_ref
        if isinstance(it, SeqV): return it, False
        return None, False

    def iterate(self, it, fn, e=None):
        """run fn(element) for every element of the iterable, summarising symbolic repetition"""
        itv = it
        while isinstance(itv, RefV): itv = itv.place.get()
        rg_ = itv.seq if isinstance(itv, IterV) and isinstance(itv.seq, RangeV) else itv
        if isinstance(rg_, RangeV) and rg_.hi is not None and is_term(rg_.lo) and is_term(rg_.hi) and getattr(self, '_range_splits', 0) < 6:
            # `for i in 0..n` where n was chosen earlier among constants (`n = if len < 63 {1} else ..`): one evaluation per
            # case of the innermost undecided choice, each with a constant trip count
            n_ = rebuild(sub(rg_.hi, rg_.lo), lambda x: None)
            if n_[0] != 'c' and any(u[0] == 'ite' for u in sym.subterms(n_)):
                cs = sorted((x for x in sym.cond_atoms(n_) if not any(u[0] == 'ite' for u in sym.subterms(x))), key=sym.key)
                if cs:
                    self._range_splits = getattr(self, '_range_splits', 0) + 1
                    try:
                        def again():
                            lo2, hi2 = rebuild(rg_.lo, lambda x: None), rebuild(rg_.hi, lambda x: None)
                            self.iterate(RangeV(lo2, hi2) if rg_ is itv else IterV(RangeV(lo2, hi2), itv.by_ref, itv.kind, itv.maps, itv.enum), fn, e)
                            return UNIT
                        self.branch([(cs[0], again), (TRUE, again)])
                    finally:
                        self._range_splits -= 1
                    return
        if isinstance(itv, IterV) and itv.kind == 'zip':
            # lockstep over two sequences: one side must be fully known (a constant table), the other at least as long
            def known(iv):
                sq = iv.seq
                while isinstance(sq, RefV): sq = sq.place.get()
                if isinstance(sq, SliceV):
                    # a sub-range with constant bounds of a sequence that is long enough: its elements one by one
                    base_ = sq.seq
                    while isinstance(base_, RefV): base_ = base_.place.get()
                    if not isinstance(base_, SeqV) or not is_term(sq.lo) or (sq.hi is not None and not is_term(sq.hi)): return None
                    tl_ = seqlen(base_.segs)
                    l_ = rng(sq.lo); h_ = rng(sq.hi if sq.hi is not None else tl_)
                    if l_[0] != l_[1] or h_[0] != h_[1] or h_[0] - l_[0] > 64 or rng(tl_)[0] < h_[0]: return None
                    n_t = len(self.tops); out = []
                    for k_ in range(l_[0], h_[0]):
                        v_ = self.seq_get(base_, C(k_))
                        if isinstance(v_, Top): del self.tops[n_t:]; return None
                        out.append(v_)
                    return out
                if not isinstance(sq, SeqV) or sq.stores: return None
                out = []
                for sg in (norm_segs(sq.segs) if sq.is_bytes() else sq.segs):
                    if sg[0] == 'elem': out.append(sg[1])
                    elif sg[0] == 'int' and sg[2] == 1: out.append(sg[1])
                    elif sg[0] == 'int' and sg[2] <= 8 and sq.is_bytes():
                        # the little-endian bytes of an integer, one by one
                        for k_ in range(sg[2]):
                            out.append(C((sg[1][1] >> (8 * k_)) & 0xff) if sg[1][0] == 'c' else band(shr(sg[1], C(8 * k_)) if k_ else sg[1], C(0xff)))
                    else: return None
                return out if len(out) <= 64 else None
            def at(iv, k):
                sq = iv.seq
                while isinstance(sq, RefV): sq = sq.place.get()
                if not isinstance(sq, SeqV): return None
                lo_, _ = rng(seqlen(sq.segs))
                if lo_ < k + 1: return None
                return self.seq_get(sq, C(k))
            pa, pb = itv.parts
            ka, kb = known(pa), known(pb)
            # `.zip(k..)`: as many indices as the other side has elements
            if getattr(pa, 'count_from', None) is not None and kb is not None: ka = [add(pa.count_from, C(i_)) for i_ in range(len(kb))]
            if getattr(pb, 'count_from', None) is not None and ka is not None: kb = [add(pb.count_from, C(i_)) for i_ in range(len(ka))]
            n_ = None
            if ka is not None and kb is not None: n_ = min(len(ka), len(kb))
            elif ka is not None: n_ = len(ka)
            elif kb is not None: n_ = len(kb)
            if n_ is None: self.top('zip of two sequences of unknown length', e); return
            wa = (lambda v: RefV(Cell(v))) if pa.by_ref else (lambda v: v)
            wb = (lambda v: RefV(Cell(v))) if pb.by_ref else (lambda v: v)
            for k_ in range(n_):
                va = ka[k_] if ka is not None else at(pa, k_)
                vb = kb[k_] if kb is not None else at(pb, k_)
                if va is None or vb is None or isinstance(va, Top) or isinstance(vb, Top):
                    self.top('zip: the other sequence is not known to be long enough', e); return
                self._iter_idx = C(k_)
                # (a by-reference side over a real sequence yields places, so that `*d = s` through `iter_mut().zip(..)` lands)
                def ref_of(part, v_):
                    sq_ = part.seq
                    while isinstance(sq_, RefV): sq_ = sq_.place.get()
                    if part.by_ref and isinstance(sq_, SeqV) and not part.maps and getattr(part, 'count_from', None) is None: return RefV(IndexPlace(self, sq_, C(k_)), True)
                    return None
                fn(TupleV([ref_of(pa, va) or wa(va), ref_of(pb, vb) or wb(vb)]))
            self._iter_idx = None
            return
        if isinstance(itv, IterV) and itv.kind == 'flat_map':
            # it.flat_map(f): the elements of f(x) for every x, in order
            inner_fn = fn; maps_ = list(itv.maps)
            if maps_:
                if any(m_ == 'enumerate' for m_ in maps_): self.top('enumerate() over a flat_map', e); return
                def fn(el, inner_fn=inner_fn, maps_=maps_):
                    for m_ in maps_:
                        if isinstance(m_, ClosureV): el = self.call_closure(m_, [el], e)
                    return inner_fn(el)
            def per(x):
                r_ = self.call_closure(itv.fn, [x], e) if itv.fn is not None else x
                while isinstance(r_, RefV): r_ = r_.place.get()
                if isinstance(r_, Top): return
                self.iterate(r_, fn, e)
            self.iterate(itv.inner, per, e)
            return
        if isinstance(itv, IterV) and itv.kind == 'chain':
            # a.chain(b): the elements of a, then those of b (adaptors applied after the chain see both)
            inner_fn = fn; maps_ = list(itv.maps)
            if maps_:
                if any(m_ == 'enumerate' for m_ in maps_): self.top('enumerate() over a chain', e); return
                def fn(el, inner_fn=inner_fn, maps_=maps_):
                    for m_ in maps_:
                        if isinstance(m_, ClosureV): el = self.call_closure(m_, [el], e)
                    return inner_fn(el)
            for p_ in itv.parts: self.iterate(p_, fn, e)
            return
        if isinstance(itv, IterV) and itv.kind in ('option', 'optflat') and not any(m_ == 'enumerate' for m_ in itv.maps):
            # Option::iter(): zero or one element;  .flatten(): the elements of the payload when there is one
            import builtins_model
            ov = itv.seq
            if itv.maps:
                inner_fn = fn; maps_ = list(itv.maps)
                def fn(el, inner_fn=inner_fn, maps_=maps_):
                    for m_ in maps_:
                        if isinstance(m_, ClosureV): el = self.call_closure(m_, [el], e)
                    return inner_fn(el)
            def some(p):
                if itv.kind == 'option': fn(RefV(Cell(p)) if itv.by_ref else p)
                else: self.iterate(RefV(Cell(p)) if itv.by_ref else p, fn, e)
                return UNIT
            builtins_model.opt_match(self, ov, some, lambda: UNIT, e)
            return
        seq, by_ref = self.iter_source(it)
        if seq is None:
            self.top('iteration over %r' % (it,), e); return
        if isinstance(itv, IterV) and (itv.maps or itv.enum):
            inner = fn; maps = list(itv.maps)
            def fn(el, inner=inner, maps=maps):
                idx = self._iter_idx
                for m_ in maps:
                    if m_ == 'enumerate':
                        if idx is None: el = self.top('enumerate() over a sequence whose positions are not known', e)
                        else: el = TupleV([idx, el])
                    elif isinstance(m_, ClosureV): el = self.call_closure(m_, [el], e)
                return inner(el)
        if isinstance(seq, SliceV):
            r = self.slice_segs(seq)
            if r is None:
                self.top('iteration over unresolved sub-slice', e); return
            seq = SeqV(seq.seq.elem, r)
        if seq.stores:
            if seq.is_bytes() or int_bits(seq.elem):
                # element-wise copy of a sequence that carries indexed stores: one 'stored' segment
                w = 1 if seq.is_bytes() else int_bits(seq.elem) // 8
                nm = 'stored<%s>' % (seq.name or '?')
                el = A(nm, 0, (1 << (8 * w)) - 1)
                seg = ('stored', tuple(seq.segs), tuple(seq.stores), w, seq.elem)
                self.summarise(lambda: fn((lambda v: RefV(Cell(v))) (el) if by_ref else el), seqlen(seq.segs), nm, el, (seg,), e, stored=True)
                return
            self.top('iteration over stored-to sequence', e); return
        wrap_ref = (lambda v: RefV(Cell(v))) if by_ref else (lambda v: v)
        if seq.is_bytes():
            segs = norm_segs(seq.segs)
            if not segs: return
            # short constant sequences are unrolled; everything else is summarised as one repetition
            if all(s[0] == 'int' and s[2] == 1 for s in segs) and len(segs) <= 4:
                for k_, s in enumerate(segs):
                    self._iter_idx = C(k_); fn(wrap_ref(s[1]))
                self._iter_idx = None
                return
            import zlib
            nm = 'byte<%08x>' % zlib.crc32(repr(segs).encode())
            el = A(nm, 0, 255)
            self._iter_idx = self._index_atom(nm, seqlen(segs))
            self.summarise(lambda: fn(wrap_ref(el)), seqlen(segs), nm, el, tuple(segs), e)
            self._iter_idx = None
            return
        pos = ZERO
        for s in list(seq.segs):
            if s[0] == 'elem':
                self._iter_idx = pos
                fn(wrap_ref(s[1])); pos = add(pos, ONE)
            elif s[0] == 'sym':
                nm = show(s[1]) + '[i]'
                while nm in self.active_loops: nm += "'"
                self.active_loops.add(nm)
                el = self.sym_value(seq.elem, nm)
                self._iter_idx = add(pos, self._index_atom(nm, ('len', s[1])))
                self.summarise(lambda: fn(wrap_ref(el)), ('len', s[1]), nm, el, None, e)
                self.active_loops.discard(nm); pos = add(pos, ('len', s[1]))
            elif s[0] == 'range':
                # for i in lo..hi: one symbolic iteration with i = lo + idx
                cnt = sub(s[2], s[1])
                lo_, hi_ = rng(cnt)
                if lo_ < 0: cnt = ite(cmp('le', s[1], s[2]), cnt, ZERO)
                ia = self._index_atom('range(%s..%s)' % (show(s[1]), show(s[2])), cnt)
                self._iter_idx = add(pos, ia)
                vn = None
                if s[1] == ZERO and s[2][0] == 'len':
                    # `for i in 0..v.len()`: v[i] inside the body is the loop's element, exactly as in `for x in &v`
                    vn = show(s[2][1]) + '[i]'
                    while vn in self.active_loops: vn += "'"
                    self.active_loops.add(vn)
                    self.range_index[ia] = (s[2][1], vn)
                self.summarise(lambda: fn(wrap_ref(add(s[1], ia))), cnt, vn, add(s[1], ia), None, e); pos = add(pos, cnt)
                if vn: self.active_loops.discard(vn); self.range_index.pop(ia, None)
            elif s[0] == 'cond':
                # a sequence that is one of two sequences depending on a condition (e.g. `opt.as_deref().unwrap_or(&[])`)
                self._iter_idx = None
                self.branch([(s[1], lambda s=s: (self.iterate(SeqV(seq.elem, list(s[2])), fn, e), UNIT)[1]),
                             (TRUE, lambda s=s: (self.iterate(SeqV(seq.elem, list(s[3])), fn, e), UNIT)[1])])
                pos = add(pos, seglen(s))
            elif s[0] == 'fill':
                self._iter_idx = add(pos, self._index_atom('fill@%s' % show(pos), s[1]))
                self.summarise(lambda: fn(wrap_ref(fcopy(s[2]))), s[1], None, s[2], None, e); pos = add(pos, s[1])
            else:
                self.top('iteration over segment %r' % (s,), e)
        self._iter_idx = None

    def _index_atom(self, nm, count):
        """the position of the current element inside a summarised repetition: an atom in [0, count)"""
        a = ('a', 'idx(%s)' % nm)
        lo, hi = rng(count)
        sym.ATOM_RANGE[a[1]] = (0, max(hi - 1, 0)) if hi < sym.BIG else (0, sym.BIG)
        return a

    def _containers(self):
        """all SeqV / OuterSink / int-holding places reachable from the state"""
        seen = set(); seqs = []; ints = []
        def walk(v, setter):
            if is_term(v):
                ints.append(setter); return
            if id(v) in seen: return
            if isinstance(v, (SeqV, OuterSink)):
                seen.add(id(v)); seqs.append(v)
                if isinstance(v, SeqV) and not v.is_bytes():
                    for i, s in enumerate(v.segs):
                        if s[0] == 'elem': walk(s[1], None)
                return
            if isinstance(v, (StructV, EnumV)):
                seen.add(id(v))
                for k2 in v.fields:
                    walk(v.fields[k2], (v.fields, k2))
                return
            if isinstance(v, TupleV):
                seen.add(id(v))
                for i in range(len(v.items)): walk(v.items[i], (v.items, i))
                return
            if isinstance(v, RefV):
                if id(v.place) in seen: return
                seen.add(id(v.place))
                if isinstance(v.place, Cell): walk(v.place.v, (v.place, 'v'))
                elif isinstance(v.place, FieldPlace): walk(v.place.obj, None)
                return
            if isinstance(v, ClosureV):
                for u in v.upvars: walk(u, None)
                return
            if isinstance(v, Cell):
                if id(v) in seen: return
                seen.add(id(v)); walk(v.v, (v, 'v'))
        for fr in self.st.frames:
            for var, cell in fr.vars.items():
                if id(cell) in seen: continue
                seen.add(id(cell)); walk(cell.v, (cell, 'v'))
            for var, pl in fr.upvars.items():
                if isinstance(pl, Cell) and id(pl) not in seen:
                    seen.add(id(pl)); walk(pl.v, (pl, 'v'))
        for r in self.st.roots: walk(r, None)
        return seqs, [s for s in ints if s is not None]

    @staticmethod
    def _get(setter):
        c, k = setter
        return getattr(c, k) if k == 'v' and isinstance(c, Cell) else c[k]
    @staticmethod
    def _set(setter, v):
        c, k = setter
        if k == 'v' and isinstance(c, Cell): c.v = v
        else: c[k] = v

    def summarise(self, run, count, varname, elem, source_segs, e, stored=False):
        """one symbolic iteration standing for `count` iterations"""
        seqs, ints = self._containers()
        marks = [(s, len(s.segs), list(s.stores) if isinstance(s, SeqV) else None) for s in seqs]
        olds = []
        for st in ints:
            old = self._get(st)
            nm = self.fresh_name('acc')
            lo, hi = rng(old)
            a = A(nm, 0, max(hi, 255) if hi < sym.BIG else None) if False else ('a', nm)
            sym.ATOM_RANGE[nm] = (0, 255) if (lo >= 0 and hi <= 255) else (0, sym.BIG)
            olds.append((st, old, a))
            self._set(st, a)
        self._summarising = getattr(self, '_summarising', 0) + 1
        try:
            run()
        except ReturnEx:
            self.top('early return inside a loop over a sequence of unknown length', e)
        finally:
            self._summarising -= 1
        # integers: unchanged, or accumulator
        for st, old, a in olds:
            new = self._get(st)
            if not is_term(new):
                self._set(st, self.top('loop-carried non-scalar', e)); continue
            if new == a:
                self._set(st, old); continue
            m = None
            def incr(x):
                # per-iteration increment of an accumulator expression (joins of accumulators allowed)
                nonlocal m
                if x == a: return ZERO
                if x[0] == 'ite':
                    if a in subterms(x[1]): return None
                    p, q = incr(x[2]), incr(x[3])
                    return None if p is None or q is None else ite(x[1], p, q)
                inner = x
                if x[0] == 'wrap':
                    if m not in (None, x[2]): return None
                    m = x[2]; inner = x[1]
                dd = sub(inner, a)
                if a not in subterms(dd): return dd
                if inner[0] == 'lin':
                    # (a joined accumulator) + more: exactly one summand carries the accumulator, with coefficient one
                    hold = [(u, c) for u, c in inner[1] if a in subterms(u)]
                    if len(hold) == 1 and hold[0][1] == 1:
                        d0 = incr(hold[0][0])
                        if d0 is None: return None
                        rest = sub(inner, hold[0][0])
                        return None if a in subterms(rest) else add(d0, rest)
                elif inner is not x:
                    return incr(inner)
                return None
            d = incr(new)
            if d is None:
                self._set(st, self.top('loop-carried value is not an accumulator: %s' % show(new), e)); continue
            if a in subterms(d):
                self._set(st, self.top('loop-carried value is not an accumulator: %s' % show(new), e)); continue
            # d is the per-iteration increment; sum it over the iteration
            self._cur_var = varname
            total = self.sum_over(d, count, elem, source_segs)
            if total is None:
                total = self.sum_over_var(d, count, varname)
            if total is None:
                self._set(st, self.top('cannot sum loop increment %s' % show(d), e)); continue
            r = add(old, total)
            self._set(st, wrap(r, m) if m else r)
        # sequences: appended segments become one repetition
        for s, n, stores in marks:
            if isinstance(s, SeqV) and s.stores != stores:
                s.segs.append(('raw', ('a', self.fresh_name('top')), ZERO)); self.top('store inside summarised loop', e); continue
            new = s.segs[n:]
            if not new: continue
            del s.segs[n:]
            if stored and len(new) == 1 and new[0][0] == 'int' and new[0][1] == elem and new[0][2] == source_segs[0][3]:
                s.segs.extend(source_segs)
            elif source_segs is not None and is_term(elem) and len(new) == 1 and new[0] == ('int', elem, 1):
                s.segs.extend(source_segs)       # byte-wise copy of the iterated sequence
            elif source_segs is not None and is_term(elem) and isinstance(s, SeqV) and not s.is_bytes() and len(new) == 1 and new[0] == ('elem', elem):
                s.segs.extend(source_segs)
            else:
                if isinstance(s, SeqV) and not s.is_bytes():
                    s.segs.append(('rep', count, varname, tuple(new)))
                else:
                    s.segs.append(('rep', count, varname, tuple(norm_segs(new))))

    def sum_over(self, d, count, elem, source_segs):
        """sum of the per-iteration term d over the iteration"""
        if not is_term(elem) or elem not in subterms(d):
            return None if self._cur_var and _mentions(d, self._cur_var) else mul(count, d)
        dd, c = to_lin(d)
        if set(dd.keys()) == {elem} and source_segs is not None:
            return add(scale(S_of(source_segs), dd[elem]), mul(count, C(c)))
        return None

    def sum_over_var(self, d, count, varname):
        if varname is None or not _mentions(d, varname): return mul(count, d)
        return ('Ssum', count, varname, d)

    # -------------------------------------------------------------- calls
    def e_Call(self, e):
        name = e.get('resolved') or e.get('callee')
        if name is None:
            # call through a closure value / fn pointer
            fv = self.eval(e['fun'])
            args = [self.eval(a) for a in e['args']]
            if isinstance(fv, ClosureV): return self.call_closure(fv, args, e)
            return self.top('indirect call', e)
        if name.startswith('core::panicking::') or e.get('ty') == '!':
            self.st.dead = True
            return UNIT
        args = [self.eval(a) for a in e['args']]
        if self.st.dead: return UNIT
        for a in args:
            if isinstance(a, Top) and not name.startswith('core::fmt'): return a
        return self.dispatch(name, args, e)

    def dispatch(self, name, args, e):
        import builtins_model
        # dynamic / unresolved trait calls on the sink and on Aml objects
        cn = e.get('callee') or name
        if cn in ('AmlSink::byte', 'AmlSink::word', 'AmlSink::dword', 'AmlSink::qword', 'AmlSink::vec') and (e.get('rkind') in ('virtual', None) or name == cn):
            return self.sink_call(cn.split('::')[1], args, e)
        if cn == 'Aml::to_aml_bytes' and (e.get('rkind') in ('virtual', None) or name == cn):
            return self.aml_call(args, e)
        if name in self.abstract:
            r = builtins_model.abstract_call(self, name, args, e)
            if r is not None: return r
        if name in self.f.bodies and self.f.bodies[name].get('body') is not None:
            b_ = self.f.bodies[name]
            if b_.get('trait') in ('core::ops::Deref', 'core::convert::AsRef', 'core::borrow::Borrow') and args:
                rv = args[0]
                while isinstance(rv, RefV): rv = rv.place.get()
                if isinstance(rv, SeqV) and rv.is_bytes() and self.f.adt(norm_ty(b_.get('self_ty') or '').split('<')[0]):
                    # the receiver is the abstract byte view that stands for a value of this type (the result of a function
                    # kept abstract, e.g. create_pkg_length): its byte view is itself
                    return args[0] if isinstance(args[0], RefV) else RefV(Cell(rv))
            return self.call_local(name, args, e)
        # a method of a crate-local trait called on a receiver whose concrete type is only known here (e.g. a required
        # method called from a provided one that was inlined for a concrete Self): the impl for the receiver's type
        tr = e.get('trait') if isinstance(e, dict) else None
        resolved_foreign = name != cn and name.startswith(('core::', 'alloc::', 'std::', 'zerocopy::')) and not name.startswith('<')
        if tr and args and not resolved_foreign and (tr in self.f.trait_defaults or any(t_ == tr for (t_, _) in self.f.trait_impls)):
            rv = args[0]
            while isinstance(rv, RefV): rv = rv.place.get()
            rty = rv.ty if isinstance(rv, (StructV, EnumV)) else None
            if not rty:
                # a trait object made from a scalar or an array: the type recorded when it was unsized
                r0 = args[0]
                while isinstance(r0, RefV) and getattr(r0, 'src_ty', None) is None and getattr(r0.place, 'src_ty', None) is None and isinstance(r0.place.get(), RefV): r0 = r0.place.get()
                if isinstance(r0, RefV): rty = getattr(r0, 'src_ty', None) or getattr(r0.place, 'src_ty', None)
            if not rty: rty = self.value_type(rv)
            if not rty and isinstance(e.get('args'), list) and e['args'] and isinstance(e['args'][0], dict):
                # a scalar / slice receiver has no type of its own: the static type of the receiver expression
                rty = strip_refs(norm_ty(self.resolve_ty(e['args'][0].get('ty', '')))) or None
            if not rty and e.get('generics'): rty = norm_ty(self.resolve_ty(e['generics'][0]))
            mname = (e.get('callee_name') or name.split('::')[-1])
            d = self.f.method(tr, rty, mname) if rty else None
            if d is None and rty: d = self.f.trait_defaults.get(tr, {}).get(mname)
            if d and d in self.f.bodies and self.f.bodies[d].get('body') is not None:
                return self.call_local(d, args, e)
        try:
            r = builtins_model.call(self, name, args, e)
        except (TypeError, AttributeError, KeyError, IndexError, ValueError) as ex:
            return self.top('operands outside the model of %s (%s)' % (name, type(ex).__name__), e)
        if r is NotImplemented:
            return self.top('no model for ' + name, e)
        return r

    def call_local(self, name, args, e=None, upvars=None, tsub=None):
        b = self.f.bodies[name]
        self.calls_seen.append(name)
        self.depth += 1
        if self.depth > 40:
            self.depth -= 1
            return self.top('inlining depth', e)
        fr = Frame(name)
        if e is not None and b.get('type_params') and e.get('generics'):
            tys = [self.resolve_ty(g) for g in e['generics']]
            if len(tys) >= len(b['type_params']):
                fr.tsub = dict(zip(b['type_params'], tys[-len(b['type_params']):] if len(tys) > len(b['type_params']) else tys))
        elif b['kind'] == 'Closure':
            fr.tsub = dict(self.frame().tsub)
        if tsub: fr.tsub = dict(tsub)
        if 'Self' in (b.get('type_params') or []) and fr.tsub.get('Self') in (None, 'Self') and args:
            # a provided trait method inlined for a receiver whose type is known here
            rv = args[0]
            while isinstance(rv, RefV): rv = rv.place.get()
            rty = rv.ty if isinstance(rv, (StructV, EnumV)) else self.value_type(rv)
            if rty: fr.tsub['Self'] = norm_ty(rty)
        params = b['params']
        if b['kind'] == 'Closure':
            params = params[1:]
            if upvars is None and args and isinstance(deref_all(args[0]), ClosureV) and len(args) == 2:
                # call through Fn/FnMut/FnOnce::call*(closure, (args,)): untuple and bind the captured variables
                cv = deref_all(args[0])
                tup = args[1]
                args = list(tup.items) if isinstance(tup, TupleV) else ([] if isinstance(tup, Unit) else [tup])
                return self.call_closure(cv, args, e)
            fr.upvars = upvars or {}
        self.st.frames.append(fr)
        try:
            if len(params) != len(args):
                return self.top('arity mismatch calling ' + name, e)
            for p, a in zip(params, args):
                if 'pat' in p: self.bind(p['pat'], a)
            try:
                r = self.eval(b['body'])
                if fr.returned is not None and fr.ret_vals:
                    # value of the activation: the returned value on the paths that returned early, the body's value otherwise
                    if fr.returned == TRUE:
                        vals_ = fr.ret_vals
                        r = vals_[0][1] if len(vals_) == 1 else self._join([(c_, v_) for c_, v_ in vals_[:-1]] + [(TRUE, vals_[-1][1])])
                    else:
                        vals_ = [(c_, v_) for c_, v_ in fr.ret_vals] + [(TRUE, r)]
                        if all(isinstance(v_, Unit) for _, v_ in vals_): r = UNIT
                        else: r = self._join(vals_)
                if isinstance(r, Never): r = UNIT
            except ReturnEx as rx:
                r = rx.value
        finally:
            self.st.frames.pop()
            self.depth -= 1
        return r

    def call_closure(self, cv, args, e=None):
        if isinstance(cv, FnItemV):
            # fn(A, B) -> R {path}: rebuild a call expression for the dispatcher
            m = re.match(r'^(?:unsafe )?(?:extern "[^"]*" )?fn\((.*)\)(?: -> (.*?))? \{', cv.fn_ty or '')
            ptys = split_generics('X<%s>' % m.group(1))[1] if m and m.group(1) else []
            ret = (m.group(2) if m and m.group(2) else '()')
            ce = {'k': 'Call', 'callee': cv.d, 'resolved': cv.d, 'callee_name': cv.d.split('::')[-1], 'ty': ret, 'sp': (e or {}).get('sp') if isinstance(e, dict) else None,
                  'args': [{'ty': (ptys[i] if i < len(ptys) else '?')} for i in range(len(args))], 'generics': [], 'generic_sizes': []}
            for a in args:
                if isinstance(a, Top): return a
            return self.dispatch(cv.d, list(args), ce)
        b = self.f.bodies.get(cv.d)
        if not b: return self.top('closure body ' + cv.d, e)
        # upvars: collect Upvar ids in order of first appearance matches capture order
        ids = []
        def walk(x):
            if isinstance(x, dict):
                if x.get('k') == 'Upvar' and x['var'] not in ids: ids.append(x['var'])
                for v in x.values(): walk(v)
            elif isinstance(x, list):
                for v in x: walk(v)
        walk(b['body'])
        up = {}
        # capture order is by first use in most cases; fall back to name lookup in the defining frame
        outer = self.frame()
        for vid in ids:
            if vid in outer.vars: up[vid] = outer.vars[vid]
        if len(up) != len(ids):
            for vid, uv in zip(ids, cv.upvars):
                if vid not in up:
                    up[vid] = uv.place if isinstance(uv, RefV) else Cell(uv)
        return self.call_local(cv.d, args, e, upvars=up)

    # ---- the two traits
    def sink_target(self, v):
        while isinstance(v, RefV): v = v.place.get()
        return v

    def sink_call(self, meth, args, e):
        tgt = self.sink_target(args[0])
        if isinstance(tgt, Top): return tgt
        if isinstance(tgt, OuterSink) and tgt.byte_only and meth != 'byte':
            # a sink that implements only the mandatory method: everything else is the trait's default body
            tgt.calls.append(meth)
            d = self.f.trait_defaults.get('AmlSink', {}).get(meth)
            if d is None: return self.top('no default AmlSink::%s' % meth, e)
            return self.call_local(d, [args[0], args[1]], e)
        if isinstance(tgt, OuterSink):
            tgt.calls.append(meth)
            v = args[1]
            if meth == 'vec':
                sq = self.sink_target(v)
                if isinstance(sq, SeqV) and sq.is_bytes() and not sq.stores:
                    tgt.segs.extend(sq.segs); return UNIT
                if isinstance(sq, SeqV) and sq.is_bytes():
                    fl = flatten_stores(sq)
                    if fl is not None: tgt.segs.extend(norm_segs(fl)); return UNIT
                if isinstance(sq, SliceV):
                    r = self.slice_segs(sq)
                    if r is not None: tgt.segs.extend(r); return UNIT
                return self.top('sink.vec of %r' % (sq,), e)
            w = {'byte': 1, 'word': 2, 'dword': 4, 'qword': 8}[meth]
            while isinstance(v, RefV) and not is_term(v): v = v.place.get()
            if not is_term(v): return self.top('sink.%s of %r' % (meth, v), e)
            tgt.segs.append(('int', v, w)); return UNIT
        # concrete sink type: virtual dispatch to its impl, falling back to the trait's default body
        ty = self.value_type(tgt)
        d = self.f.method('AmlSink', ty, meth) if ty else None
        if d is None:
            d = self.f.trait_defaults.get('AmlSink', {}).get(meth)
        if d is None: return self.top('no AmlSink::%s for %r' % (meth, tgt), e)
        return self.call_local(d, [args[0], args[1]], e)

    def value_type(self, v):
        if isinstance(v, SeqV) and v.is_bytes(): return 'alloc::vec::Vec<u8>'
        if isinstance(v, (StructV, EnumV)): return v.path
        return None

    def slice_segs(self, sv):
        """segments of seq[lo..hi] when resolvable"""
        seq = sv.seq
        if not isinstance(seq, SeqV): return None
        if seq.stores:
            # a buffer filled in place: its contents after the stores, when they resolve to pieces
            fl = flatten_stores(seq) if seq.is_bytes() else None
            if fl is None: return None
            seq = SeqV(seq.elem, norm_segs(fl))
        lo, hi = sv.lo, sv.hi
        if not is_term(lo) or (hi is not None and not is_term(hi)): return None
        total = seqlen(seq.segs)
        if hi is None: hi = total
        if lo == ZERO and hi == total: return list(seq.segs)
        if lo[0] == 'c' and hi[0] == 'c':
            out = []; pos = 0
            for s in seq.segs:
                l = seglen(s)
                if l[0] != 'c': return None
                a, b2 = pos, pos + l[1]
                if b2 <= lo[1] or a >= hi[1]: pos = b2; continue
                if a >= lo[1] and b2 <= hi[1]: out.append(s)
                elif s[0] == 'int':
                    # a sub-range of the little-endian bytes of one integer: the bits [8*(from), 8*(to)) of its value
                    fr_, to_ = max(a, lo[1]) - a, min(b2, hi[1]) - a
                    x = s[1]
                    part = shr(x, C(8 * fr_)) if fr_ else x
                    if to_ < l[1]:
                        # the upper bytes are dropped: this is a narrowing of the value (recorded like an `as` cast)
                        plo, phi = rng(part)
                        fits = plo >= 0 and phi < (1 << (8 * (to_ - fr_)))
                        self.casts.append({'from': 'u%d' % (8 * l[1]), 'to': 'u%d' % (8 * (to_ - fr_)), 'term': part, 'sp': None, 'fits': fits, 'mac': None, 'fn': self.frame().d if self.st.frames else '?',
                                           'facts': [c for c, _ in self.st.facts], 'expr': 'le_bytes(%s)[%d..%d]' % (show(x)[:60], fr_, to_)})
                        part = trunc(part, 8 * (to_ - fr_))
                    out.append(('int', part, to_ - fr_))
                elif s[0] == 'raw': out.append(('raw', ('call', 'slice', s[1], C(max(a, lo[1]) - a), C(min(b2, hi[1]) - a)), C(min(b2, hi[1]) - max(a, lo[1]))))
                elif s[0] == 'rep' and s[2] is None and seqlen(s[3]) == ONE: out.append(('rep', C(min(b2, hi[1]) - max(a, lo[1])), None, s[3]))
                else: return None
                pos = b2
            return out
        # symbolic prefix of a single raw/fill segment
        if len(seq.segs) == 1:
            s = seq.segs[0]
            if s[0] == 'raw': return [('raw', ('call', 'slice', s[1], lo, hi), sub(hi, lo))]
            if s[0] == 'rep' and s[2] is None and seqlen(s[3]) == ONE: return [('rep', sub(hi, lo), None, s[3])]
        # all-equal constant bytes: any sub-range is a fill of that byte
        flat = norm_segs(seq.segs)
        if flat and all(s[0] == 'int' and s[2] == 1 and s[1] == flat[0][1] for s in flat):
            return [('rep', sub(hi, lo), None, (flat[0],))]
        # a prefix of symbolic length of a fixed-size buffer (e.g. `&buf[..used]`): kept lazily, resolved wherever the
        # length becomes a constant (per interval cell)
        if lo == ZERO and seq.is_bytes() and total[0] == 'c' and total[1] <= 16:
            return [('prefix', hi, tuple(seq.segs))]
        return None

    def aml_call(self, args, e):
        obj = args[0]
        while isinstance(obj, RefV): obj = obj.place.get()
        if isinstance(obj, Top): return obj
        if isinstance(obj, ChoiceV):
            # serialise whichever alternative the conditions select
            alts = [(c, (lambda sink_, *vs_, k=k: self.aml_call([RefV(Cell(vs_[k])), sink_], e))) for k, (c, v) in enumerate(obj.alts)]
            alts[-1] = (TRUE, alts[-1][1])
            return self.branch(alts, carry=[args[1]] + [v for _, v in obj.alts])
        if isinstance(obj, DynV):
            tgt = self.sink_target(args[1])
            seg = ('opaque', obj.name)
            if isinstance(tgt, (OuterSink,)): tgt.segs.append(seg); return UNIT
            if isinstance(tgt, SeqV): tgt.segs.append(seg); return UNIT
            if isinstance(tgt, StructV):
                # concrete non-recording sink (Checksum, Sdt, PackageBuilder): feed it the opaque bytes
                d = self.f.method('AmlSink', tgt.path, 'vec') or self.f.trait_defaults.get('AmlSink', {}).get('vec')
                return self.call_local(d, [args[1], RefV(Cell(SeqV('u8', [seg])))], e)
            return self.top('dyn to_aml_bytes into %r' % (tgt,), e)
        ty = self.aml_type_of(obj, e)
        if (ty is None or 'dyn ' in ty) and not isinstance(obj, (StructV, EnumV)):
            r0 = args[0]
            while isinstance(r0, RefV) and getattr(r0, 'src_ty', None) is None and getattr(r0.place, 'src_ty', None) is None and isinstance(r0.place.get(), RefV): r0 = r0.place.get()
            if isinstance(r0, RefV): ty = getattr(r0, 'src_ty', None) or getattr(r0.place, 'src_ty', None) or ty
        d = self.f.method('Aml', ty, 'to_aml_bytes') if ty else None
        if d is None: return self.top('no Aml impl for %r (%s)' % (obj, ty), e)
        return self.call_local(d, [args[0], args[1]], e)

    def aml_type_of(self, obj, e):
        if isinstance(obj, (StructV, EnumV)): return obj.ty
        if is_term(obj):
            t = strip_refs(norm_ty(e['args'][0]['ty']))
            return t
        if isinstance(obj, SeqV): return strip_refs(norm_ty(e['args'][0]['ty']))
        return None


def deref_all(v):
    while isinstance(v, RefV): v = v.place.get()
    return v

def _pe(e):
    try:
        import pp
        s = pp.pe(e)
        return re.sub(r'\s+', ' ', s)[:100]
    except Exception:
        return '?'

def strip_one_ref(t):
    if t.startswith('&mut '): return t[5:]
    if t.startswith('&'): return t[1:]
    return t

def S_of(segs):
    """byte-sum of a segment list as a term of the ledger domain (additive over segments)"""
    r = ZERO
    for s in segs:
        k = s[0]
        if k == 'int':
            if s[1][0] == 'c':
                v = s[1][1]; r = add(r, C(sum((v >> (8 * i)) & 0xff for i in range(s[2]))))
            elif s[2] == 1: r = add(r, s[1])
            else: r = add(r, ('S', ('LE', s[1], s[2])))
        elif k == 'raw':
            if s[2] == ZERO: continue
            r = add(r, ('S', ('raw', s[1])))
        elif k == 'opaque': r = add(r, ('S', ('emit', s[1])))
        elif k == 'cond': r = add(r, ite(s[1], S_of(s[2]), S_of(s[3])))
        elif k == 'rep':
            if s[2] is None or not _mentions(S_of(s[3]), s[2]): r = add(r, mul(s[1], S_of(s[3])))
            else: r = add(r, ('Ssum', s[1], s[2], S_of(s[3])))
        elif k == 'stored':
            r = add(r, stored_sum(s))
        else: r = add(r, ('S', s))
    return r


_ST_INTERN = {}
def st_key(base, hist):
    """compact name of 'the sequence `base` after the stores `hist`' (interned, so terms stay small)"""
    k = (tuple(base), tuple(hist))
    n = _ST_INTERN.get(k)
    if n is None:
        n = len(_ST_INTERN); _ST_INTERN[k] = n
    return ('st', n)

def canon_bytes(t):
    """canonical byte-sum form: S[le_w(x)] and byte-valued slices of x become sums of B(x, k) atoms, so that the same
    bytes summed as one integer, as two halves or one by one are the same term"""
    def f(x):
        if x[0] == 'S' and isinstance(x[1], tuple) and x[1] and x[1][0] == 'LE':
            src, w = x[1][1], x[1][2]
            base = _slice_of(src, w) if src[0] in ('trunc', 'shr', 'and') else None
            root, j = base if base else (src, 0)
            root = canon_bytes(root)
            r = ZERO
            top_ = rng(root)[1]
            for k in range(w):
                if 0 <= rng(root)[0] and top_ < (1 << (8 * (j + k))): continue      # bytes above the value's range are zero
                r = add(r, ('byte', root, j + k))
            return r
        if x[0] in ('trunc', 'shr', 'and'):
            b = _slice_of(x, 1)
            if b is not None and rng(x)[1] <= 255: return ('byte', canon_bytes(b[0]), b[1])
        if x[0] == 'wrap' and x[2] == 256:
            # modulo 256 only the low byte of every summand counts
            d, c = to_lin(x[1])
            r = C(c)
            for leaf, k in d.items():
                r = add(r, scale(_low_byte(leaf), k))
            return wrap(r, 256)
        return None
    return rebuild(t, f)

def _low_byte(t):
    """canonical form of (t mod 256)"""
    if t[0] == 'byte' or t[0] == 'S' or t[0] == 'Ssum': return canon_bytes(t) if t[0] != 'byte' else t
    if t[0] == 'trunc' and t[2] >= 8: return _low_byte(t[1])
    if t[0] == 'shr' and t[2][0] == 'c' and t[2][1] % 8 == 0:
        y = t[1]; off = t[2][1]
        while True:
            if y[0] == 'trunc' and y[2] >= off + 8: y = y[1]
            elif y[0] == 'shr' and y[2][0] == 'c' and y[2][1] % 8 == 0:
                # (z >> s2) truncated is still bits of z, as long as no truncation below cut them (checked above)
                off2 = y[2][1]; y = y[1]; off += off2
            else: break
        if y[0] in ('a',): return ('byte', y, off // 8)
        return ('byte', canon_bytes(y), off // 8)
    if t[0] == 'a':
        return t if rng(t)[1] <= 255 else ('byte', t, 0)
    return canon_bytes(t)

def stored_sum(s):
    """byte-sum of a 'stored' segment: S(base) + sum over the stores of (new - old-at-that-time)"""
    _, base, stores, w, elem = s
    if w != 1: return ('S', s)
    r = S_of(base)
    hist = []
    for (i, v) in stores:
        if isinstance(i, tuple) and i and i[0] == 'within': return ('S', s)
        if isinstance(i, tuple) and i and i[0] == 'range':
            old_ = _old_range_sum(base, hist, i[1], i[2])
            r = add(r, sub(S_of(v), old_ if old_ is not None else ('S', ('slice', st_key(base, hist), i[1], i[2]))))
            hist.append((i, v)); continue
        old = stored_get(base, hist, i)
        if not (is_term(v) and is_term(old) and is_term(i)): return ('S', ('undecided-store', len(_ST_INTERN)))
        r = add(r, sub(v, old))
        hist.append((i, v))
    return r

def _old_range_sum(base, hist, lo, hi):
    """byte-sum of positions [lo, hi) of `base` before a range store, when no earlier store touches them and the
    positions are constant bytes of the base (a zeroed buffer being filled piece by piece); None otherwise"""
    if not (is_term(lo) and is_term(hi) and lo[0] == 'c' and hi[0] == 'c'): return None
    for (i, v) in hist:
        if isinstance(i, tuple) and i and i[0] == 'range':
            if not (is_term(i[1]) and is_term(i[2]) and i[1][0] == 'c' and i[2][0] == 'c'): return None
            if i[1][1] < hi[1] and lo[1] < i[2][1]: return None
        elif is_term(i) and i[0] == 'c':
            if lo[1] <= i[1] < hi[1]: return None
        else: return None
    pos = 0; total = 0
    for sg in base:
        l = seglen(sg)
        if l[0] != 'c': return None
        a, b = pos, pos + l[1]; pos = b
        if b <= lo[1] or a >= hi[1]: continue
        n_in = min(b, hi[1]) - max(a, lo[1])
        if sg[0] == 'int' and sg[1][0] == 'c':
            for k_ in range(max(a, lo[1]) - a, max(a, lo[1]) - a + n_in): total += (sg[1][1] >> (8 * k_)) & 0xff
        elif sg[0] == 'rep' and sg[2] is None and len(sg[3]) == 1 and sg[3][0][0] == 'int' and sg[3][0][2] == 1 and sg[3][0][1][0] == 'c':
            total += n_in * sg[3][0][1][1]
        else: return None
    return C(total) if pos >= hi[1] else None

def stored_get(base, hist, idx):
    for n in range(len(hist) - 1, -1, -1):
        (i, v) = hist[n]
        if isinstance(i, tuple) and i and i[0] == 'range' and is_term(i[1]) and is_term(i[2]) and is_term(idx):
            # an interval write [lo, hi): a position provably outside it is older contents; inside, at a constant place of
            # constant-width pieces, it is that piece's byte
            def named_(r_): return isinstance(r_, tuple) and any(u[0] == 'sel' and isinstance(u[1], tuple) and u[1] and u[1][0] == 'st' for u in subterms(r_))
            if cmp('lt', idx, i[1]) == TRUE or cmp('le', i[2], idx) == TRUE:
                r_ = stored_get(base, hist[:n], idx)
                if r_ is not None and not named_(r_): return r_          # (otherwise the position keeps the name it always had)
            elif i[1][0] == 'c' and idx[0] == 'c' and cmp('lt', idx, i[2]) == TRUE:
                r_ = stored_get(list(v), [], C(idx[1] - i[1][1]))
                if r_ is not None and not named_(r_): return r_
        if isinstance(i, tuple) and i and i[0] in ('range', 'within'):
            t = ('sel', st_key(base, hist[:n + 1]), idx); sym.SEL_RANGE[t[1]] = (0, 255); return t
        c = cmp('eq', i, idx)
        if c == TRUE: return v
        if c == FALSE: continue
        older = stored_get(base, hist[:n], idx)
        return ite(c, v, older)
    if len(base) == 1:
        b = base[0]
        if b[0] == 'raw':
            sym.SEL_RANGE[b[1]] = (0, 255); return ('sel', b[1], idx)
        if b[0] == 'rep' and b[2] is None and len(b[3]) == 1 and b[3][0][0] == 'int' and b[3][0][2] == 1: return b[3][0][1]
    if idx[0] == 'c':
        pos = 0
        for sg in base:
            l = seglen(sg)
            if l[0] != 'c':
                # a leading piece of symbolic length that is known to be long enough: the position is inside it
                if sg[0] == 'raw' and rng(l)[0] > idx[1] - pos >= 0:
                    sym.SEL_RANGE[sg[1]] = (0, 255); return ('sel', sg[1], C(idx[1] - pos))
                break
            if pos <= idx[1] < pos + l[1]:
                if sg[0] == 'int' and sg[2] == 1: return sg[1]
                if sg[0] == 'int': return band(shr(sg[1], C(8 * (idx[1] - pos))), C(0xff)) if sg[1][0] != 'c' else C((sg[1][1] >> (8 * (idx[1] - pos))) & 0xff)
                break
            pos += l[1]
    t = ('sel', st_key(base, ()), idx); sym.SEL_RANGE[t[1]] = (0, 255); return t
