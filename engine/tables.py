"""Table analysis shared by C01/C02/C03/C05: constructor states, mutator pre/post states and
their emissions, all symbolic (one abstract evaluation per function)."""
import copy
from sym import *
import sym
from model import *
from evalr import SeqV, StructV, EnumV, RefV, Cell, Top, is_term, fcopy

class Step:
    pass

def analyse_ctor(facts, ty, body):
    I = new_interp(facts)
    args = sym_args(I, body)
    st = run_fn(I, body['def'], args)
    s = Step(); s.I = I; s.fn = body; s.kind = 'ctor'; s.args = args
    s.post = st; s.ret = st
    s.tops = list(I.tops)
    s.E_post = None
    if isinstance(st, StructV):
        n = len(I.tops)
        s.E_post = emit_value(I, st, ty)
        s.tops = list(I.tops)
    return s

def analyse_step(facts, ty, body, kind, preset=None):
    """kind: 'mut' (&mut self) or 'builder' (self -> Self); preset: {field: constant value} for fields
    that no public operation ever writes (they keep the constructor's constant: a trivially inductive fact)"""
    I = new_interp(facts)
    selfv = I.sym_value(norm_ty(ty), 'self')
    for k_, v_ in (preset or {}).items(): set_leaf(selfv, k_, fcopy(v_))
    pre = fcopy(selfv)
    ps = params_of(body)
    args = [I.sym_value(norm_ty(t), n) for n, t in ps[1:]]
    s = Step(); s.I = I; s.fn = body; s.kind = kind; s.args = args; s.pre = pre
    if kind == 'mut':
        s.ret = run_fn(I, body['def'], [RefV(Cell(selfv), True)] + args)
        s.post = selfv
    else:
        s.ret = run_fn(I, body['def'], [selfv] + args)
        s.post = s.ret
    s.dead = I.st.dead
    s.facts = list(I.st.facts)
    s.E_pre = emit_value(I, pre, ty)
    s.E_post = emit_value(I, s.post, ty) if isinstance(s.post, StructV) else None
    s.tops = list(I.tops)
    return s

def leaves(v, prefix=''):
    out = {}
    if isinstance(v, StructV):
        for k, x in v.fields.items(): out.update(leaves(x, prefix + k + '.'))
    else: out[prefix[:-1]] = v
    return out

def set_leaf(v, path, val):
    ps = path.split('.')
    for p in ps[:-1]: v = v.fields[p]
    v.fields[ps[-1]] = val

def reachable_self(facts, ty, I):
    """symbolic receiver of a table type with the never-written constant fields preset"""
    sv = I.sym_value(norm_ty(ty), 'self')
    hp = header_field_path(facts, ty)
    if hp:
        T = Table(facts, ty, hp)
        for k_, v_ in T.const_fields.items(): set_leaf(sv, k_, fcopy(v_))
    return sv

def ground(v):
    """value without atoms (a compile-time constant)"""
    if is_term(v): return not atoms(v)
    if isinstance(v, SeqV): return v.is_bytes() and not v.stores and all(s[0] == 'int' and s[1][0] == 'c' for s in v.segs)
    return False

class Table:
    def __init__(self, facts, ty, header_path):
        self.facts = facts; self.ty = ty; self.hp = header_path
        self.fns = fns_of(facts, ty)
        self.ctors = []; self.steps = []
        for name, b in sorted(self.fns.items()):
            if not is_pub(b): continue
            k = classify(b, ty)
            if k == 'ctor': self.ctors.append(analyse_ctor(facts, ty, b))
            elif k in ('mut', 'builder'): self.steps.append(analyse_step(facts, ty, b, k))
        # leaf fields never written by any public operation and constant after every constructor
        self.const_fields = {}
        if self.ctors and self.steps and all(isinstance(c.post, StructV) for c in self.ctors):
            flat0 = [leaves(c.post) for c in self.ctors]
            for path, v0 in flat0[0].items():
                vals = [fl.get(path) for fl in flat0]
                if not all(ground(v) for v in vals) or any(repr(v) != repr(vals[0]) for v in vals): continue
                if all(isinstance(s.post, StructV) and repr(leaves(s.post).get(path)) == repr(leaves(s.pre).get(path)) for s in self.steps):
                    self.const_fields[path] = vals[0]
            if self.const_fields:
                self.steps = [analyse_step(facts, ty, s.fn, s.kind, self.const_fields) for s in self.steps]
        adt = facts.adt(norm_ty(ty).split('<')[0])
        self.fields = {fd['name']: fd for fd in adt['variants'][0]['fields']}
        # the running byte sum: a field of type Checksum, or a crate-private wrapper struct around exactly one Checksum
        def is_ledger_ty(t):
            t = norm_ty(t)
            if t == 'Checksum': return True
            if t in getattr(facts, 'transparent', ()):
                inner = [fd for fd in facts.adt(t)['variants'][0]['fields']]
                return sum(1 for fd in inner if norm_ty(fd['ty']) == 'Checksum') == 1
            return False
        self.has_ledger = any(is_ledger_ty(fd['ty']) for fd in self.fields.values())
        self.ledger_field = next((n for n, fd in self.fields.items() if is_ledger_ty(fd['ty'])), None)

    def ledger_value(self, st):
        """the running sum held by the table state `st`"""
        v = st.fields[self.ledger_field]
        if isinstance(v, StructV) and v.path != 'Checksum':
            inner = [x for x in v.fields.values() if isinstance(x, StructV) and x.path == 'Checksum']
            v = inner[0] if len(inner) == 1 else v
        return v.fields['value']

    def header(self, st): return get_path(st, self.hp)

def all_tables(facts):
    return [Table(facts, ty, hp) for ty, hp in table_types(facts)]

# ---------------------------------------------------------------- generic inductive invariants

def entry_emission_len(I, value, ty):
    segs = emit_value(I, value, ty)
    if segs is None: return None
    return seqlen(segs)

class InvariantResult:
    def __init__(self): self.ok = True; self.failures = []; self.obligations = 0; self.analysed = []

def prove_field_invariant(facts, ty, field, rhs_fn, arg_subst_fn=None, what=''):
    """Show by induction over the public API of `ty` that  value.fields[field] == rhs_fn(I, value)
    after every constructor and is preserved (delta form) by every public mutator/builder.
    rhs_fn(I, value) -> term.  arg_subst_fn(I, args) -> {atom: term} applies already-proven invariants
    of argument objects.  Returns InvariantResult with per-function failures."""
    res = InvariantResult()
    fns = fns_of(facts, ty)
    for name, b in sorted(fns.items()):
        if not is_pub(b): continue
        k = classify(b, ty)
        if k == 'ctor':
            I = new_interp(facts)
            args = sym_args(I, b)
            st = run_fn(I, b['def'], args)
            res.analysed.append(b['def'])
            if not isinstance(st, StructV) or field not in st.fields: continue
            lhs = st.fields[field]; rhs = rhs_fn(I, st)
            m = arg_subst_fn(I, args) if arg_subst_fn else {}
            res.obligations += 1
            if I.tops or not is_term(lhs) or rhs is None:
                res.ok = False; res.failures.append((b, 'undecided', I.tops[:3])); continue
            l2, r2 = strip_trunc(subst(lhs, m)), strip_trunc(subst(rhs, m))
            ok, w = equal(l2, r2, [c for c, _ in I.st.facts])
            if not ok:
                res.ok = False; res.failures.append((b, 'ctor', {'field': show(l2), 'expected': show(r2), 'witness': w}))
        elif k in ('mut', 'builder'):
            I = new_interp(facts)
            selfv = I.sym_value(norm_ty(ty), 'self')
            pre = fcopy(selfv)
            ps = params_of(b)
            args = [I.sym_value(norm_ty(t), n) for n, t in ps[1:]]
            if k == 'mut':
                run_fn(I, b['def'], [RefV(Cell(selfv), True)] + args); post = selfv
            else:
                post = run_fn(I, b['def'], [selfv] + args)
            res.analysed.append(b['def'])
            if not isinstance(post, StructV): continue
            res.obligations += 1
            r_pre = rhs_fn(I, pre); r_post = rhs_fn(I, post)
            l_pre = pre.fields[field]; l_post = post.fields[field]
            if I.tops or r_pre is None or r_post is None or not is_term(l_post):
                res.ok = False; res.failures.append((b, 'undecided', I.tops[:3])); continue
            m = arg_subst_fn(I, args) if arg_subst_fn else {}
            dl = strip_trunc(subst(sub(l_post, l_pre), m)); dr = strip_trunc(subst(sub(r_post, r_pre), m))
            ok, w = equal(dl, dr, [c for c, _ in I.st.facts])
            if not ok:
                res.ok = False; res.failures.append((b, 'step', {'delta_field': show(dl), 'delta_expected': show(dr), 'witness': w}))
    return res
