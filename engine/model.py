"""Shared helpers for the rule modules: running functions of the crate on symbolic inputs,
emission of values, flattening with offsets, discovery of tables / entries / API surface."""
import copy, re
from sym import *
import sym
from ir import norm_ty, strip_refs, split_generics
from evalr import (Interp, Frame, OuterSink, RefV, Cell, StructV, EnumV, SeqV, TupleV, DynV, Top, UNIT,
                   show_segs, norm_segs, seqlen, seglen, S_of, is_term)

ABSTRACT = ('aml::create_pkg_length',)

def ctor_closed(facts):
    """Structures of spec/layouts.py CTOR_FIELDS whose private state no longer has the fields the specification names
    (the representation changed, e.g. several bools folded into one bit set).  When every value of such a type can only
    come from its constructor - all fields private, no struct literal outside the constructor, no assignment to a field,
    no `&mut self` method - a symbolic value of the type is the constructor applied to symbolic arguments, named after
    the fields the specification reads them from.  -> {type: (constructor def, {parameter: specified field})}"""
    if hasattr(facts, '_ctor_closed'): return facts._ctor_closed
    out = {}
    try:
        import layouts as SPEC
        table = SPEC.CTOR_FIELDS
    except Exception:
        table = {}
    def has(e, pred):
        if isinstance(e, dict):
            if pred(e): return True
            return any(has(v, pred) for v in e.values())
        if isinstance(e, list): return any(has(v, pred) for v in e)
        return False
    for (ty, ctor), fields in table.items():
        adt = facts.adt(ty)
        if not adt or adt.get('kind') != 'Struct': continue
        have = {fd['name'] for fd in adt['variants'][0]['fields']}
        if all(k in have for k in fields): continue                  # the usual case: the specified fields exist
        if any(fd.get('vis') != 'priv' for fd in adt['variants'][0]['fields']): continue
        cb = None
        for d, b in facts.bodies.items():
            if norm_ty(b.get('self_ty') or '') == ty and b.get('name') == ctor and not b.get('trait'): cb = b
        if cb is None: continue
        closed = True
        for d, b in facts.bodies.items():
            if b.get('body') is None: continue
            lit = has(b['body'], lambda e: e.get('k') == 'Adt' and norm_ty(e.get('ty', '')) == ty)
            asg = has(b['body'], lambda e: e.get('k') in ('Assign', 'AssignOp') and isinstance(e.get('lhs'), dict) and e['lhs'].get('k') == 'Field'
                      and isinstance(e['lhs'].get('lhs'), dict) and strip_refs(norm_ty(e['lhs']['lhs'].get('ty', ''))) == ty)
            if (lit and d != cb['def']) or asg: closed = False
            if norm_ty(b.get('self_ty') or '') == ty and not b.get('trait') and classify(b, b['self_ty']) == 'mut': closed = False
        if not closed: continue
        pmap = {}
        for fld, want in fields.items():
            if isinstance(want, str) and want.startswith('='): pmap[want[1:]] = fld
        if all(n in pmap for n, _ in params_of(cb)): out[ty] = (cb['def'], pmap)
    facts._ctor_closed = out
    return out

def new_interp(facts, abstract=ABSTRACT):
    I = Interp(facts, abstract)
    I.ctor_closed = ctor_closed(facts)
    I.st.frames.append(Frame('<root>'))
    sym.CTX = {}
    return I

import os as _os, sys as _sys
_sys.path.insert(0, _os.path.join(_os.path.dirname(_os.path.dirname(_os.path.abspath(__file__))), 'spec'))
from params import PARAMS as _FROZEN_PARAMS

def params_of(body):
    """[(name, type)] of a function body.  A parameter's name is not part of the function's interface, and the
    specification tables name constructor and setter arguments: whenever the function still has the parameters (count
    and types) it had when the tables were written, the names frozen then (spec/params.py) are handed out by position."""
    out = []
    for p in body.get('params', []):
        pat = p.get('pat') or {}
        nm = pat.get('name') if pat.get('k') == 'Binding' else '_'
        out.append((nm, p['ty']))
    fz = _FROZEN_PARAMS.get(body.get('def'))
    if fz and len(fz) == len(out) and all(norm_ty(t) == ft for (_, t), (_, ft) in zip(out, fz)):
        out = [(fn_ if fn_ != '_' else n, t) for (n, t), (fn_, _) in zip(out, fz)]
    return out

def run_fn(I, d, args, tsub=None):
    sym.CTX = I.st.ranges          # path facts are scoped to the interpretation; rule code sees none
    try:
        r = I.call_local(d, args, tsub=tsub)
        if I.st.dead:
            # every path through the function ends in a panic: whatever is read off the state afterwards is vacuous
            I.top('every evaluated path of %s panics (the function refuses all inputs)' % d, I.f.bodies.get(d, {}).get('sp'))
        return r
    finally:
        sym.CTX = {}

def byte_view(I, v, ty=None):
    """the bytes a value stands for: a byte sequence is itself; a struct with a crate-local `Deref<Target = [u8]>` (or
    `AsRef<[u8]>`) impl is what that impl returns"""
    from evalr import SliceV
    while isinstance(v, RefV): v = v.place.get()
    if isinstance(v, SeqV): return v
    if isinstance(v, StructV):
        for tr in ('core::ops::Deref', 'core::convert::AsRef'):
            for nm in ('deref', 'as_ref'):
                d = I.f.method(tr, v.ty, nm) or I.f.method(tr, v.path, nm)
                if d and d in I.f.bodies:
                    r = I.call_local(d, [RefV(Cell(v))], None)
                    while isinstance(r, RefV): r = r.place.get()
                    if isinstance(r, SeqV): return r
                    if isinstance(r, SliceV):
                        sg = I.slice_segs(r)
                        if sg is not None: return SeqV('u8', list(sg))
    return v

def sym_args(I, body, prefix=''):
    return [I.sym_value(norm_ty(t), prefix + n) for n, t in params_of(body)]

def _mark_dead(I, what):
    if I.st.dead: I.top('every evaluated path of %s panics (it refuses all inputs)' % what, None)

def emit_value(I, value, ty, facts=None):
    """segments emitted by <ty as Aml>::to_aml_bytes(&value, sink) in interpreter I"""
    f = I.f
    d = f.method('Aml', ty, 'to_aml_bytes')
    if d is None: return None
    sink = OuterSink()
    I.st.roots.append(sink)
    sym.CTX = I.st.ranges
    try:
        I.call_local(d, [RefV(Cell(value)), RefV(Cell(sink), True)])
        _mark_dead(I, 'the serialiser of %s' % ty)
    finally:
        sym.CTX = {}
    I.st.roots.remove(sink)
    return norm_segs(sink.segs)

def with_offsets(segs):
    """[(offset term, seg)]"""
    out = []; pos = ZERO
    for s in segs:
        out.append((pos, s)); pos = add(pos, seglen(s))
    return out, pos

def seg_at(segs, off, width=None):
    """the int segment starting at constant offset `off` (or None)"""
    lst, _ = with_offsets(segs)
    for p, s in lst:
        if p == C(off) and s[0] == 'int' and (width is None or s[2] == width): return s
    return None

def byte_sum_excluding(segs, off):
    """S(segs) with the 1-byte segment at constant offset `off` removed; returns (sum term, removed seg|None)"""
    lst, _ = with_offsets(segs)
    rest = []; removed = None
    for p, s in lst:
        if p == C(off) and s[0] == 'int' and s[2] == 1 and removed is None: removed = s
        else: rest.append(s)
    return S_of(rest), removed

# ---------------------------------------------------------------- API discovery

def aml_types(facts):
    return [st for st, im in facts.impls_of('Aml')]

def fns_of(facts, self_ty):
    """non-trait functions defined in inherent impls of self_ty: {name: body}"""
    n = norm_ty(self_ty)
    out = {}
    for d, b in facts.bodies.items():
        if b.get('self_ty') and norm_ty(b['self_ty']).split('<')[0] == n.split('<')[0] and not b.get('trait') and b.get('name'):
            out[b['name']] = b
    return out

def classify(body, self_ty):
    """'ctor' | 'mut' (takes &mut self) | 'builder' (takes self, returns Self) | 'reader' | 'static'"""
    ps = body.get('params', [])
    base = norm_ty(self_ty).split('<')[0]
    ret = norm_ty(body.get('ret', ''))
    if ps and ps[0].get('self_kind'):
        k = ps[0]['self_kind']
        t = norm_ty(ps[0]['ty'])
        if t.startswith('&mut'): return 'mut'
        if t.startswith('&'): return 'reader'
        return 'builder' if ret.split('<')[0] == base else 'consumer'
    if ret.split('<')[0] == base: return 'ctor'
    return 'static'

def is_pub(body): return body.get('vis') == 'pub'

def header_field_path(facts, ty):
    """path of fields from a table struct to its TableHeader, e.g. ['header'] or ['header','table_header']; None if none"""
    adt = facts.adt(norm_ty(ty).split('<')[0])
    if not adt or adt['kind'] != 'Struct': return None
    for fd in adt['variants'][0]['fields']:
        ft = norm_ty(fd['ty'])
        if ft == 'TableHeader': return [fd['name']]
        sub = facts.adt(ft)
        if sub and sub['kind'] == 'Struct':
            for fd2 in sub['variants'][0]['fields']:
                if norm_ty(fd2['ty']) == 'TableHeader': return [fd['name'], fd2['name']]
    return None

def get_path(v, path):
    for p in path: v = v.fields[p]
    return v

def table_types(facts):
    """Aml types that own a TableHeader (directly or in a packed sub-header), by shape"""
    out = []
    for st in aml_types(facts):
        hp = header_field_path(facts, st)
        if hp: out.append((st, hp))
    return out

def tops_since(I, n): return I.tops[n:]

# ---------------------------------------------------------------- comparing emission shapes

def _explode_consts(segs):
    out = []
    for s in segs:
        if s[0] == 'int' and s[1][0] == 'c' and s[2] > 1:
            for i in range(s[2]): out.append(('int', C((s[1][1] >> (8 * i)) & 0xff), 1))
        elif s[0] == 'rep' and s[2] is None and s[1][0] == 'c' and s[1][1] <= 64 and all(x[0] == 'int' and x[1][0] == 'c' for x in s[3]):
            for _ in range(s[1][1]): out.extend(_explode_consts(list(s[3])))
        else: out.append(s)
    return out

def _specialise(segs, c, v):
    """the segment list under the assumption that condition c has truth value v"""
    m = {c: (TRUE if v else FALSE)}
    def tm(x): return rebuild(subst(x, m), lambda y: None) if isinstance(x, tuple) else x
    out = []
    for s in segs:
        k = s[0]
        if k == 'cond':
            if s[1] == c: out.extend(_specialise(list(s[2] if v else s[3]), c, v))
            elif s[1] == bnot(c): out.extend(_specialise(list(s[3] if v else s[2]), c, v))
            else: out.append(('cond', tm(s[1]), tuple(_specialise(list(s[2]), c, v)), tuple(_specialise(list(s[3]), c, v))))
        elif k == 'int': out.append(('int', tm(s[1]), s[2]))
        elif k == 'pkglen': out.append(('pkglen', tm(s[1]), s[2]))
        elif k == 'rep': out.append(('rep', tm(s[1]), s[2], tuple(_specialise(list(s[3]), c, v))))
        elif k == 'raw': out.append(('raw', s[1], tm(s[2])))
        else: out.append(s)
    return out

def segs_equal(a, b, facts=(), _depth=0):
    """structural equality of two segment lists with term equality decided by sym.equal; returns (ok, why).
    When the shapes differ and a branch condition is involved, the comparison is repeated under both truth
    values of that condition (so `if c {A; X} else {B; Y}` equals `if c {A} else {B}; if c {X} else {Y}`)."""
    ok, why = _segs_equal(a, b, facts)
    if ok or _depth >= 4: return ok, why
    conds = [s[1] for s in list(norm_segs(list(a))) + list(norm_segs(list(b))) if s[0] == 'cond']
    for c in conds[:1]:
        if c[0] == 'bnot': c = c[1]
        for v in (True, False):
            ok2, why2 = segs_equal(_specialise(list(a), c, v), _specialise(list(b), c, v), list(facts) + [c if v else bnot(c)], _depth + 1)
            if not ok2: return False, why
        return True, ''
    return ok, why

def _segs_equal(a, b, facts=()):
    a = norm_segs(list(a)); b = norm_segs(list(b))
    if len(a) != len(b) or any(x[0] == 'int' and y[0] == 'int' and x[2] != y[2] for x, y in zip(a, b)):
        # the chunking of constants does not matter: 6:2 is the bytes 6, 0
        a = _explode_consts(a); b = _explode_consts(b)
    if len(a) != len(b):
        return False, 'different number of segments: %s vs %s' % (show_segs(a), show_segs(b))
    for x, y in zip(a, b):
        if x[0] != y[0]: return False, 'segment kind %s vs %s (%s vs %s)' % (x[0], y[0], show_segs([x]), show_segs([y]))
        k = x[0]
        if k == 'int':
            if x[2] != y[2]: return False, 'width %d vs %d for %s' % (x[2], y[2], show_segs([x]))
            ok, w = equal(strip_trunc(x[1]), strip_trunc(y[1]), facts)
            if not ok: return False, 'value %s vs %s' % (show(x[1]), show(y[1]))
        elif k == 'raw':
            if x[1] != y[1] or not equal(x[2], y[2], facts)[0]: return False, 'raw bytes %s vs %s' % (show_segs([x]), show_segs([y]))
        elif k == 'opaque':
            if x[1] != y[1]: return False, 'child %s vs %s' % (show(x[1]), show(y[1]))
        elif k == 'pkglen':
            ok, w = equal(x[1], y[1], facts)
            if not ok or x[2] != y[2]: return False, 'PkgLength(%s,%s) vs PkgLength(%s,%s)' % (show(x[1]), show(x[2]), show(y[1]), show(y[2]))
        elif k == 'rep':
            if not equal(x[1], y[1], facts)[0]: return False, 'repeat count %s vs %s' % (show(x[1]), show(y[1]))
            ok, why = segs_equal(x[3], y[3], facts)
            if not ok: return False, 'in repetition: ' + why
        elif k == 'cond':
            # two spellings of one condition (a truncation the known ranges make the identity): decided as 0/1 terms
            if x[1] != y[1] and not equal(x[1], y[1], facts)[0]: return False, 'condition %s vs %s' % (show(x[1]), show(y[1]))
            for p, q in ((x[2], y[2]), (x[3], y[3])):
                ok, why = segs_equal(p, q, facts)
                if not ok: return False, 'in branch of %s: %s' % (show(x[1]), why)
        else:
            if x != y: return False, '%r vs %r' % (x, y)
    return True, ''

def ctor_of(facts, ty, name='new'):
    fs = fns_of(facts, ty)
    return fs.get(name)

# ---------------------------------------------------------------- private-field invariants

_INV_CACHE = {}
def field_invariants(facts):
    """{type: {field: (lo, hi)}}: ranges that every public constructor establishes for a private scalar field
    which no other function writes (a trivially inductive type invariant, e.g. PCI device < 32)."""
    key = id(facts)
    if key in _INV_CACHE: return _INV_CACHE[key]
    out = {}
    for path, adt in facts.adts.items():
        if adt['kind'] != 'Struct' or adt.get('generic'): continue
        fields = adt['variants'][0]['fields']
        if not fields or any(fd['vis'] == 'pub' for fd in fields): continue
        fs = fns_of(facts, path)
        ctors = [b for b in fs.values() if classify(b, path) == 'ctor']
        if not ctors or any(not is_pub(b) and False for b in ctors): continue
        # other writers of the fields
        writers = set()
        for d, b in facts.bodies.items():
            if b.get('body') is None: continue
            if _assigns_field_of(b['body'], path): writers.add(d)
        if writers - {b['def'] for b in ctors}: continue
        hull = None
        for b in ctors:
            I = new_interp(facts)
            try:
                st = run_fn(I, b['def'], sym_args(I, b))
            except Exception:
                hull = None; break
            if I.tops or not isinstance(st, StructV): hull = None; break
            cur = {}
            for fd in fields:
                v = st.fields.get(fd['name'])
                if is_term(v):
                    sym.CTX = I.st.ranges
                    lo, hi = rng(v)
                    sym.CTX = {}
                    cur[fd['name']] = (lo, hi)
            hull = cur if hull is None else {k: (min(hull[k][0], cur[k][0]), max(hull[k][1], cur[k][1])) for k in hull if k in cur}
        # struct literals outside the constructors would bypass the assertions
        if hull:
            sites = set()
            for d, b in facts.bodies.items():
                if b.get('body') is not None and _has_adt_literal(b['body'], path): sites.add(d)
            if sites - {b['def'] for b in ctors}: continue
            out[path] = hull
    _INV_CACHE[key] = out
    return out

_CNT_CACHE = {}
def monotone_counters(facts):
    """{type: {field}}: private 64-bit integer fields that start at a literal and are only ever advanced by `+=` of a
    literal, a `size_of`, or the length of an object in memory.  Such a field counts bytes or elements that were
    actually delivered, so it is bounded like the size of an object in memory (and by 2^64 steps of wall-clock time)."""
    key = id(facts)
    if key in _CNT_CACHE: return _CNT_CACHE[key]
    cand = {}
    for path, adt in facts.adts.items():
        if adt['kind'] != 'Struct' or adt.get('generic'): continue
        for fd in adt['variants'][0]['fields']:
            if fd['vis'] == 'priv' and norm_ty(fd['ty']) in ('usize', 'u64'): cand.setdefault(path, set()).add(fd['name'])
    def strip(x):
        while isinstance(x, dict) and x.get('k') in ('Scope', 'Use', 'Cast', 'NeverToAny', 'Coerce', 'Paren') and isinstance(x.get('arg'), dict): x = x['arg']
        return x
    def small(x):
        x = strip(x)
        if not isinstance(x, dict): return False
        if x.get('k') == 'Lit' and isinstance(x.get('int'), int): return 0 <= x['int'] <= 0xffffffff
        if x.get('k') == 'Const' and isinstance(x.get('value'), dict) and isinstance(x['value'].get('int'), int): return 0 <= x['value']['int'] <= 0xffffffff
        if x.get('k') == 'Call':
            c = x.get('resolved') or x.get('callee') or ''
            return c == 'core::mem::size_of' or c.endswith('::len')
        return False
    def walk(x):
        if isinstance(x, dict):
            k = x.get('k')
            if k in ('Assign', 'AssignOp'):
                l = strip(x['lhs'])
                if isinstance(l, dict) and l.get('k') == 'Field':
                    ty = norm_ty(strip_refs(l['lhs'].get('ty', '')))
                    if ty in cand and l.get('name') in cand[ty]:
                        if not (k == 'AssignOp' and x.get('op') in ('Add', 'AddAssign') and small(x['rhs'])): cand[ty].discard(l['name'])
            elif k == 'Adt' and x.get('adt') in cand:
                for fd in x.get('fields', []):
                    if fd['name'] in cand[x['adt']] and not small(fd['e']): cand[x['adt']].discard(fd['name'])
                if 'base' in x: cand[x['adt']].clear()
            elif k == 'Borrow' and x.get('mut'):
                a = strip(x.get('arg'))
                if isinstance(a, dict) and a.get('k') == 'Field':
                    ty = norm_ty(strip_refs(a['lhs'].get('ty', '')))
                    if ty in cand: cand[ty].discard(a.get('name'))     # a &mut to the field escapes: no claim
            for v in x.values(): walk(v)
        elif isinstance(x, list):
            for v in x: walk(v)
    for d, b in facts.bodies.items():
        if b.get('body') is not None and not b.get('derived'): walk(b['body'])
    out = {p: s for p, s in cand.items() if s}
    _CNT_CACHE[key] = out
    return out

def counter_atoms(v, counters, out, seen=None):
    """atoms that stand for monotone-counter fields of the struct values reachable from v"""
    if seen is None: seen = set()
    if id(v) in seen: return out
    seen.add(id(v))
    if isinstance(v, RefV): return counter_atoms(v.place.get(), counters, out, seen)
    if isinstance(v, StructV):
        for k, x in v.fields.items():
            if k in counters.get(v.path, ()) and is_term(x) and x[0] == 'a': out.add(x)
            counter_atoms(x, counters, out, seen)
    elif isinstance(v, EnumV):
        for x in v.fields.values(): counter_atoms(x, counters, out, seen)
    elif isinstance(v, TupleV):
        for x in v.items: counter_atoms(x, counters, out, seen)
    return out

def _assigns_field_of(e, ty):
    found = [False]
    def walk(x):
        if isinstance(x, dict):
            if x.get('k') in ('Assign', 'AssignOp'):
                l = x['lhs']
                while l.get('k') in ('Field', 'Index', 'Deref'):
                    if l.get('k') == 'Field' and norm_ty(strip_refs(l['lhs'].get('ty', ''))) == ty: found[0] = True
                    l = l.get('lhs') or l.get('arg')
            for v in x.values(): walk(v)
        elif isinstance(x, list):
            for v in x: walk(v)
    walk(e); return found[0]

def _has_adt_literal(e, ty):
    found = [False]
    def walk(x):
        if isinstance(x, dict):
            if x.get('k') == 'Adt' and x.get('adt') == ty: found[0] = True
            for v in x.values(): walk(v)
        elif isinstance(x, list):
            for v in x: walk(v)
    walk(e); return found[0]

def apply_invariants(I, v, inv, seen=None):
    """install the type invariants of every struct value reachable from v as range facts of interpreter I"""
    if seen is None: seen = set()
    if id(v) in seen: return
    seen.add(id(v))
    if isinstance(v, RefV): return apply_invariants(I, v.place.get(), inv, seen)
    if isinstance(v, StructV):
        rs = inv.get(v.path)
        for k, x in v.fields.items():
            if rs and k in rs and is_term(x) and x[0] == 'a':
                old = sym.ATOM_RANGE.get(x[1], (0, sym.BIG))
                I.st.ranges[x] = (max(old[0], rs[k][0]), min(old[1], rs[k][1]))
            apply_invariants(I, x, inv, seen)
    elif isinstance(v, EnumV):
        if v.variant is None and v.path == 'core::option::Option':
            apply_invariants(I, I.enum_payload(v, 'Some', '0'), inv, seen)
        for x in v.fields.values(): apply_invariants(I, x, inv, seen)
    elif isinstance(v, SeqV) and not v.is_bytes():
        for s in v.segs:
            if s[0] == 'elem': apply_invariants(I, s[1], inv, seen)
    elif isinstance(v, TupleV):
        for x in v.items: apply_invariants(I, x, inv, seen)


def refused(guards, cond, facts=()):
    """some refusal met is the condition `cond`, however it is written (`x < 7` is `x <= 6`, `!(a < b)` is `b <= a`, a
    range pattern is two comparisons): compared as functions of the inputs by the decision procedure"""
    want = ite(cond, ONE, ZERO)
    def conjuncts(c): return conjuncts(c[1]) + conjuncts(c[2]) if c[0] == 'band' else [c]
    def tidy(c):
        # drop a conjunct `t <= K` that another conjunct `t <= y` implies because y cannot exceed K (`a + b` fits the type
        # *and* is within the table: the second says it all)
        cs = conjuncts(c)
        keep = [x_ for x_ in cs if not (x_[0] == 'le' and x_[2][0] == 'c' and any(y_ is not x_ and y_[0] == 'le' and y_[1] == x_[1] and rng(y_[2])[1] <= x_[2][1] for y_ in cs))]
        r = TRUE
        for x_ in keep: r = b_and(r, x_)
        return r
    for x in guards:
        c = x['cond']
        if c == cond: return True
        if is_term(c) and c[0] == 'band': c = tidy(c)
        if c == cond: return True
        if is_term(c) and len(cond_atoms(ite(c, ONE, ZERO)) | cond_atoms(want)) <= 8 and equal(ite(c, ONE, ZERO), want, facts)[0]: return True
    return False


def only_constructed(facts, ty):
    """every value of the struct `ty` comes out of one of its own constructor functions unchanged: all fields private,
    struct literals of the type only inside its inherent functions that return Self without taking self, no assignment
    to a field anywhere, no inherent method taking `&mut self` or consuming and returning self"""
    key = ('_only_constructed', ty)
    cache = facts.__dict__.setdefault('_oc_cache', {})
    if ty in cache: return cache[ty]
    adt = facts.adt(ty)
    ok = bool(adt) and adt.get('kind') == 'Struct' and all(fd.get('vis') == 'priv' for fd in adt['variants'][0]['fields'])
    def has(e, pred):
        if isinstance(e, dict):
            if pred(e): return True
            return any(has(v, pred) for v in e.values())
        if isinstance(e, list): return any(has(v, pred) for v in e)
        return False
    if ok:
        for d, b in facts.bodies.items():
            if b.get('body') is None: continue
            mine = norm_ty(b.get('self_ty') or '').split('<')[0] == ty and not b.get('trait')
            if mine and classify(b, b['self_ty']) in ('mut', 'builder'): ok = False; break
            lit = has(b['body'], lambda e: e.get('k') == 'Adt' and norm_ty(e.get('ty', '')).split('<')[0] == ty)
            if lit and not (mine and classify(b, b['self_ty']) == 'ctor'): ok = False; break
            if has(b['body'], lambda e: e.get('k') in ('Assign', 'AssignOp') and isinstance(e.get('lhs'), dict) and e['lhs'].get('k') == 'Field'
                   and isinstance(e['lhs'].get('lhs'), dict) and strip_refs(norm_ty(e['lhs']['lhs'].get('ty', ''))).split('<')[0] == ty): ok = False; break
    cache[ty] = ok
    return ok
