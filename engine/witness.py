"""Runner for the type-level witnesses (witness/src/lib.rs): compile_fail doctests + compiling twins.
Only compiles (twins are no_run).  A scratch copy of the witness crate is made so that its path dependency
points at the repository being checked; it is removed afterwards."""
import os, re, shutil, subprocess, tempfile

HERE = os.path.dirname(os.path.dirname(os.path.abspath(__file__)))
_CACHE = {}

def run(repo):
    """-> {witness name: {'compile_fail': bool, 'twin': bool}}"""
    if repo in _CACHE: return _CACHE[repo]
    cache = os.path.join(HERE, '.cache'); os.makedirs(cache, exist_ok=True)
    tmp = tempfile.mkdtemp(prefix='witness-', dir=cache)
    try:
        shutil.copytree(os.path.join(HERE, 'witness', 'src'), os.path.join(tmp, 'src'))
        os.makedirs(os.path.join(tmp, '.cargo'))
        open(os.path.join(tmp, '.cargo', 'config.toml'), 'w').write('[net]\noffline = true\n')
        t = open(os.path.join(HERE, 'witness', 'Cargo.toml')).read().replace('path = "/repo"', 'path = "%s"' % repo)
        open(os.path.join(tmp, 'Cargo.toml'), 'w').write(t)
        if os.path.exists(os.path.join(repo, 'Cargo.lock')): shutil.copy(os.path.join(repo, 'Cargo.lock'), os.path.join(tmp, 'Cargo.lock'))
        env = dict(os.environ, CARGO_TARGET_DIR=os.path.join(cache, 'target-witness'), CARGO_NET_OFFLINE='true')
        p = subprocess.run(['cargo', '+nightly', 'test', '--doc', '--offline'], cwd=tmp, env=env, stdout=subprocess.PIPE, stderr=subprocess.STDOUT, text=True)
        res = {}
        for m in re.finditer(r'^test src/lib\.rs - (\w+) \(line \d+\) - (compile fail|compile) \.\.\. (\w+)', p.stdout, re.M):
            d = res.setdefault(m.group(1), {'compile_fail': None, 'twin': None})
            d['compile_fail' if m.group(2) == 'compile fail' else 'twin'] = (m.group(3) == 'ok')
        res['_exit'] = p.returncode; res['_tail'] = p.stdout[-1500:]
        _CACHE[repo] = res
        return res
    finally:
        shutil.rmtree(tmp, ignore_errors=True)

def check(rep, ctx, names):
    """thorough tier: the named witnesses must fail to compile with the expected error code and their twins must compile"""
    res = run(ctx.repo)
    for n in names:
        r = res.get(n)
        ok = bool(r) and r.get('compile_fail') is True and r.get('twin') is True
        rep.ob('witness', n, ok, 'type-level witness %s: compile_fail=%s twin=%s (the offending line must be rejected with the expected error code and the twin must compile)' % (n, r and r.get('compile_fail'), r and r.get('twin')),
               detail={'witness': n, 'result': r})
