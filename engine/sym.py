"""Symbolic term domain (Val / Lin / Z256 of DESIGN 2.2).

Terms are immutable nested tuples:
  ('c', n)                      integer constant (bools are 0/1 constants of kind 'c')
  ('a', name)                   atom (an input: parameter, field of self, length of a vector ...)
  ('lin', ((t, k), ...), c)     sum k*t + c over non-linear leaves t (canonical, sorted)
  ('mul', a, b)                 non-linear product
  ('and'|'or'|'xor'|'shl'|'shr'|'div'|'rem', a, b)
  ('ite', cond, a, b)
  ('trunc', a, bits)            value mod 2**bits where the operand is not known to fit
  ('wrap', lin, m)              value mod m (wrapping u8 arithmetic: m = 256)
  ('S', key)                    byte-sum atom of an emitted segment (ledger domain)
  ('eq'|'lt'|'le', a, b), ('bnot', c), ('band', c, d), ('bor', c, d)
  ('call', name, args...)       uninterpreted function of its arguments
  ('sel', vec, idx), ('len', x), ('discr', x), ('isvar', x, variant), ('payload', x, variant, field)
All arithmetic is over the mathematical integers; fixed-width effects are explicit
('trunc', 'wrap').  Equalities between terms therefore hold for every value of the atoms.
"""
import itertools

ATOM_RANGE = {}     # atom name -> (lo, hi)
U = {'u8': 8, 'u16': 16, 'u32': 32, 'u64': 64, 'usize': 64, 'u128': 128, 'bool': 1,
     'i8': 8, 'i16': 16, 'i32': 32, 'i64': 64, 'isize': 64, 'char': 32}

def C(n): return ('c', int(n))
ZERO = C(0); ONE = C(1)
TRUE = C(1); FALSE = C(0)

def A(name, lo=None, hi=None):
    if lo is not None:
        ATOM_RANGE[name] = (lo, hi)
    return ('a', name)

def is_const(t): return t[0] == 'c'
def cval(t): return t[1]

def key(t): return repr(t)

# ---------------------------------------------------------------- linear forms

def to_lin(t):
    """-> (dict leaf->coef, const)"""
    if t[0] == 'c': return {}, t[1]
    if t[0] == 'lin': return dict(t[1]), t[2]
    return {t: 1}, 0

def from_lin(d, c):
    items = [(t, k) for t, k in d.items() if k != 0]
    if not items: return ('c', c)
    if len(items) == 1 and items[0][1] == 1 and c == 0: return items[0][0]
    items.sort(key=lambda x: key(x[0]))
    return ('lin', tuple(items), c)

def add(a, b):
    da, ca = to_lin(a); db, cb = to_lin(b)
    d = dict(da)
    for t, k in db.items(): d[t] = d.get(t, 0) + k
    return from_lin(d, ca + cb)

def neg(a):
    d, c = to_lin(a)
    return from_lin({t: -k for t, k in d.items()}, -c)

def sub(a, b): return add(a, neg(b))

def scale(a, k):
    if k == 0: return ZERO
    d, c = to_lin(a)
    return from_lin({t: k * v for t, v in d.items()}, c * k)

def mul(a, b):
    if a[0] == 'c': return scale(b, a[1])
    if b[0] == 'c': return scale(a, b[1])
    # distribute over lin (keeps products canonical: a*(b+c) = ab + ac)
    da, ca = to_lin(a); db, cb = to_lin(b)
    res = C(ca * cb)
    for t, k in da.items():
        res = add(res, scale(t, k * cb))
    for u, l in db.items():
        res = add(res, scale(u, l * ca))
    for t, k in da.items():
        for u, l in db.items():
            x, y = sorted((t, u), key=key)
            res = add(res, scale(('mul', x, y), k * l))
    return res

def as_cond(c):
    """a boolean that was materialised as the integer ite(c', 1, 0) (e.g. the value of `matches!`) is the condition c'"""
    while c[0] == 'ite' and c[2][0] == 'c' and c[3][0] == 'c' and {c[2][1], c[3][1]} == {0, 1}:
        c = c[1] if c[2][1] == 1 else bnot(c[1])
    return c

def ite(c, a, b):
    c = as_cond(c)
    if c[0] == 'c': return a if c[1] else b
    if a == b: return a
    if c[0] == 'bnot': return ('ite', c[1], b, a)
    return ('ite', c, a, b)

# ---------------------------------------------------------------- ranges

BIG = 1 << 200

CTX = {}   # scoped refinements (path facts): term -> (lo, hi); swapped by the interpreter per state

def rng(t):
    if CTX:
        r = CTX.get(t)
        if r is not None:
            b = _rng(t)
            return (max(r[0], b[0]), min(r[1], b[1]))
    return _rng(t)

def refine(c, ranges, _untrunc=True):
    """record in `ranges` what the truth of condition c says about single leaves"""
    if _untrunc and any(u[0] == 'trunc' for u in subterms(c)):
        # a truncation of a value the ranges already confine to the width is the value itself: what the condition says
        # about `trunc32(x)` it says about x (chains `x <= u32::MAX`, `x as u32 <= 0xffff`, `x as u16 <= 0xff`)
        global CTX
        saved = CTX; CTX = ranges
        try:
            def g(x):
                if x[0] == 'trunc':
                    lo, hi = rng(x[1])
                    if lo >= 0 and hi < (1 << x[2]): return x[1]
                    # trunc_w(x) = trunc_w(trunc_W(x)) for W > w: when the wider truncation is confined to w bits they agree
                    for W in (64, 32, 16):
                        if W > x[2]:
                            tw = ('trunc', x[1], W)
                            if tw in ranges:
                                lo, hi = rng(tw)
                                if lo >= 0 and hi < (1 << x[2]): return tw
                return None
            c2 = rebuild(c, g)
        except Exception:
            c2 = c
        finally:
            CTX = saved
        if c2 == FALSE: ranges[('a', '$infeasible')] = (1, 0)      # the condition contradicts what the ranges already say
        elif c2 != c and c2[0] in ('le', 'lt', 'eq', 'bnot', 'band'): refine(c2, ranges, False)
    if c[0] == 'bnot':
        x = c[1]
        if x[0] == 'le': return refine(('lt', x[2], x[1]), ranges)
        if x[0] == 'lt': return refine(('le', x[2], x[1]), ranges)
        if x[0] == 'eq':
            # t != v trims an end point of t's interval when v sits on it
            dd, c0 = to_lin(sub(x[1], x[2]))
            if len(dd) == 1:
                (leaf, k), = dd.items()
                if abs(k) == 1:
                    v = -c0 * k           # k*leaf + c0 == 0  <=>  leaf == -c0/k
                    b = _rng(leaf); o = ranges.get(leaf)
                    lo, hi = (max(b[0], o[0]), min(b[1], o[1])) if o else b
                    if lo == v: ranges[leaf] = (lo + 1, hi)
                    elif hi == v: ranges[leaf] = (lo, hi - 1)
        return
    if c[0] == 'band':
        refine(c[1], ranges); refine(c[2], ranges); return
    if c[0] not in ('le', 'lt', 'eq'): return
    if c[0] in ('le', 'lt'):
        # relational fact: the difference itself is bounded below (used when both sides are symbolic)
        diff = sub(c[2], c[1])
        if diff[0] != 'c':
            old = ranges.get(diff, (-BIG, BIG))
            ranges[diff] = (max(old[0], 1 if c[0] == 'lt' else 0), old[1])
    d = sub(c[1], c[2])
    if c[0] == 'lt': d = add(d, ONE)          # a < b  <=>  a - b + 1 <= 0
    _refine_le0(d, ranges)
    if c[0] == 'eq': _refine_le0(neg(d), ranges)

def _refine_le0(d, ranges):
    """d = sum k_i t_i + c0 <= 0 : bound every leaf using the ranges of the others"""
    dd, c0 = to_lin(d)
    if not dd: return
    def r(t):
        b = _rng(t); o = ranges.get(t)
        return (max(b[0], o[0]), min(b[1], o[1])) if o else b
    mins = {}
    for t, k in dd.items():
        lo, hi = r(t)
        mins[t] = k * lo if k > 0 else k * hi
    total = sum(mins.values())
    for t, k in dd.items():
        if abs(mins[t]) >= BIG or abs(total) >= BIG // 2:
            others = None
            if all(abs(v) < BIG for u, v in mins.items() if u != t): others = sum(v for u, v in mins.items() if u != t)
        else:
            others = total - mins[t]
        if others is None: continue
        # k*t <= -c0 - others
        bound = -c0 - others
        old = ranges.get(t, (-BIG, BIG))
        if k > 0: ranges[t] = (old[0], min(old[1], bound // k))
        else: ranges[t] = (max(old[0], -((-bound) // k) if False else _ceil_div(bound, k)), old[1])

def _ceil_div(a, b):
    # smallest integer >= a / b  for b < 0:  t >= a/b
    q, rm = divmod(a, b)
    return q if rm == 0 else q + 1

def _rng(t):
    k = t[0]
    if k == 'c': return (t[1], t[1])
    if k == 'a': return ATOM_RANGE.get(t[1], (0, BIG))
    if k == 'lin':
        lo = hi = t[2]
        for u, c in t[1]:
            l, h = rng(u)
            if c >= 0: lo += c * l; hi += c * h
            else: lo += c * h; hi += c * l
        return (lo, hi)
    if k == 'mul':
        l1, h1 = rng(t[1]); l2, h2 = rng(t[2])
        if l1 >= 0 and l2 >= 0: return (l1 * l2, h1 * h2)
        return (-BIG, BIG)
    if k == 'and':
        l1, h1 = rng(t[1]); l2, h2 = rng(t[2])
        if l1 >= 0 and l2 >= 0: return (0, min(h1, h2))
        if l2 >= 0: return (0, h2)
        if l1 >= 0: return (0, h1)
        return (-BIG, BIG)
    if k in ('or', 'xor'):
        l1, h1 = rng(t[1]); l2, h2 = rng(t[2])
        if l1 >= 0 and l2 >= 0:
            m = max(h1, h2)
            return (0, (1 << m.bit_length()) - 1)
        return (-BIG, BIG)
    if k == 'shl':
        l1, h1 = rng(t[1]); l2, h2 = rng(t[2])
        if l1 >= 0 and l2 >= 0 and h2 < 200: return (l1 << l2, h1 << h2)
        return (-BIG, BIG)
    if k == 'shr':
        l1, h1 = rng(t[1]); l2, h2 = rng(t[2])
        if l1 >= 0 and l2 >= 0: return (l1 >> min(h2, 300), h1 >> l2)
        return (-BIG, BIG)
    if k == 'div':
        l1, h1 = rng(t[1]); l2, h2 = rng(t[2])
        if l1 >= 0 and l2 >= 1: return (l1 // h2, h1 // l2)
        return (-BIG, BIG)
    if k == 'rem':
        l2, h2 = rng(t[2])
        if l2 >= 1: return (0, h2 - 1)
        return (-BIG, BIG)
    if k == 'ite':
        l1, h1 = rng(t[2]); l2, h2 = rng(t[3])
        if (l1 < 0 or l2 < 0 or h1 >= BIG or h2 >= BIG) and t[1][0] in ('le', 'lt', 'eq', 'band', 'bnot'):
            # a branch that looks unbounded may be bounded by the condition it sits under (`if 48 <= c && c <= 57 { c - 48 }`)
            global CTX
            saved = CTX
            try:
                r1 = dict(saved) if saved else {}
                refine(t[1], r1); CTX = r1; l1, h1 = rng(t[2])
                r2 = dict(saved) if saved else {}
                refine(bnot(t[1]), r2); CTX = r2; l2, h2 = rng(t[3])
            finally:
                CTX = saved
        return (min(l1, l2), max(h1, h2))
    if k == 'trunc': return (0, (1 << t[2]) - 1)
    if k == 'wrap': return (0, t[2] - 1)
    if k in ('eq', 'lt', 'le', 'bnot', 'band', 'bor', 'isvar'): return (0, 1)
    if k == 'S': return (0, BIG)
    if k == 'len': return (0, (1 << 64) - 1)
    if k == 'sel':
        r = SEL_RANGE.get(t[1])
        return r if r else (0, BIG)
    if k == 'discr':
        return DISCR_RANGE.get(t[1], (0, BIG))
    if k == 'call' and t[1] == 'bitlen':
        lo, hi = rng(t[2])
        if lo >= 0 and hi < BIG: return (lo.bit_length(), min(hi.bit_length(), 64))
        # the operand is a value of an unsigned type of at most 64 bits
        return (min(lo.bit_length(), 64) if lo >= 0 else 0, 64)
    if k == 'call' and t[1] == 'npow2':
        # next_power_of_two is monotone: the range of the operand bounds the result
        lo, hi = rng(t[2])
        if lo >= 0 and hi < BIG: return (_npow2(lo), _npow2(hi))
        return (1, BIG)
    if k == 'payload' or k == 'call':
        return CALL_RANGE.get(t, (0, BIG))
    return (-BIG, BIG)

def _npow2(n): return 1 if n <= 1 else 1 << (n - 1).bit_length()

SEL_RANGE = {}
DISCR_RANGE = {}
CALL_RANGE = {}

# ---------------------------------------------------------------- bit ops

def _bin(op, a, b, f):
    if a[0] == 'c' and b[0] == 'c': return C(f(a[1], b[1]))
    return (op, a, b)

def band(a, b):
    if a[0] == 'c' and b[0] != 'c': a, b = b, a
    if a[0] == 'c' and b[0] == 'c': return C(a[1] & b[1])
    if b[0] == 'c':
        m = b[1]
        if m == 0: return ZERO
        lo, hi = rng(a)
        # mask of form 2^k-1 that covers the whole range: identity
        if lo >= 0 and (m & (m + 1)) == 0 and hi <= m: return a
        if (m & (m + 1)) == 0 and lo >= 0:
            return ('and', a, b)
        return ('and', a, b)
    x, y = sorted((a, b), key=key)
    if x == y: return x
    return ('and', x, y)

def bor(a, b):
    if a[0] == 'c' and b[0] == 'c': return C(a[1] | b[1])
    if a == ZERO: return b
    if b == ZERO: return a
    if a == b: return a
    # flatten n-ary or into a canonical sorted chain
    parts = []
    def collect(t):
        if t[0] == 'or': collect(t[1]); collect(t[2])
        else: parts.append(t)
    collect(a); collect(b)
    consts = [p for p in parts if p[0] == 'c']
    rest = sorted(set(p for p in parts if p[0] != 'c'), key=key)
    cv = 0
    for p in consts: cv |= p[1]
    if cv: rest.append(C(cv))
    res = rest[0]
    for p in rest[1:]: res = ('or', res, p)
    return res

def bxor(a, b):
    if a == ZERO: return b
    if b == ZERO: return a
    return _bin('xor', a, b, lambda x, y: x ^ y)

def shl(a, b):
    if b[0] == 'c':
        if b[1] == 0: return a
        return scale(a, 1 << b[1]) if True else None
    return ('shl', a, b)

def shr(a, b):
    if a[0] == 'c' and b[0] == 'c': return C(a[1] >> b[1])
    if b == ZERO: return a
    if a[0] == 'shr' and a[2][0] == 'c' and b[0] == 'c': return shr(a[1], C(a[2][1] + b[1]))
    return ('shr', a, b)

def div(a, b):
    if a[0] == 'c' and b[0] == 'c' and b[1] != 0: return C(a[1] // b[1])
    if b == ONE: return a
    return ('div', a, b)

def rem(a, b):
    if a[0] == 'c' and b[0] == 'c' and b[1] != 0: return C(a[1] % b[1])
    if b[0] == 'c' and b[1] > 0:
        m = b[1]
        d, c = to_lin(a)
        # drop multiples of m, look through truncations to widths divisible by m
        nd = {}
        for t, k in d.items():
            while t[0] == 'trunc' and (1 << t[2]) % m == 0 and k % m != 0:
                dd, cc = to_lin(t[1])
                if len(dd) == 1 and cc == 0:
                    (t2, k2), = dd.items()
                    t, k = t2, k * k2
                else:
                    break
            if k % m: nd[t] = nd.get(t, 0) + (k % m)
        red = from_lin(nd, c % m)
        if red[0] == 'c': return C(red[1] % m)
        return ('rem', red, b)
    return ('rem', a, b)

def trunc(a, bits):
    if a[0] == 'trunc' and a[2] >= bits: return trunc(a[1], bits)
    lo, hi = rng(a)
    if lo >= 0 and hi < (1 << bits): return a
    if a[0] == 'c': return C(a[1] & ((1 << bits) - 1))
    return ('trunc', a, bits)

def wrap(a, m):
    """a mod m; nested wraps with compatible modulus are absorbed."""
    d, c = to_lin(a)
    nd = {}
    c %= m
    for t, k in d.items():
        if t[0] == 'wrap' and t[2] % m == 0:
            d2, c2 = to_lin(t[1])
            c = (c + k * c2) % m
            for t2, k2 in d2.items():
                nd[t2] = (nd.get(t2, 0) + k * k2) % m
        elif t[0] == 'trunc' and (1 << t[2]) % m == 0:
            d2, c2 = to_lin(t[1])
            c = (c + k * c2) % m
            for t2, k2 in d2.items():
                nd[t2] = (nd.get(t2, 0) + k * k2) % m
        else:
            nd[t] = (nd.get(t, 0) + k) % m
    inner = from_lin(nd, c)
    if inner[0] == 'c': return C(inner[1] % m)
    lo, hi = rng(inner)
    if lo >= 0 and hi < m: return inner
    return ('wrap', inner, m)

# ---------------------------------------------------------------- booleans

def bnot(c):
    if c[0] == 'ite' and c[2][0] == 'c' and c[3][0] == 'c' and {c[2][1], c[3][1]} == {0, 1}: c = as_cond(c)
    if c[0] == 'c': return C(0 if c[1] else 1)
    if c[0] == 'bnot': return c[1]
    # over the integers !(a < b) is b <= a and !(a <= b) is b < a: one spelling for both ways of writing a refusal
    if c[0] == 'lt': return cmp('le', c[2], c[1])
    if c[0] == 'le': return cmp('lt', c[2], c[1])
    return ('bnot', c)

def b_and(a, b):
    if a[0] == 'c': return b if a[1] else FALSE
    if b[0] == 'c': return a if b[1] else FALSE
    if a == b: return a
    return ('band', a, b)

def b_or(a, b):
    if a[0] == 'c': return TRUE if a[1] else b
    if b[0] == 'c': return TRUE if b[1] else a
    if a == b: return a
    return ('bor', a, b)

def cmp(op, a, b):
    """op in eq, ne, lt, le, gt, ge"""
    if op == 'ne': return bnot(cmp('eq', a, b))
    if op == 'gt': return cmp('lt', b, a)
    if op == 'ge': return cmp('le', b, a)
    if a[0] == 'c' and b[0] == 'c':
        return C({'eq': a[1] == b[1], 'lt': a[1] < b[1], 'le': a[1] <= b[1]}[op])
    d = sub(a, b)
    if d[0] == 'c':
        return C({'eq': d[1] == 0, 'lt': d[1] < 0, 'le': d[1] <= 0}[op])
    lo, hi = rng(d)
    if op == 'eq':
        if lo > 0 or hi < 0: return FALSE
        # a truth value compared with a constant (`match (p, q) { (false, true) => .. }`): the condition itself
        for u, v in ((a, b), (b, a)):
            if u[0] == 'c' and v[0] in ('isvar', 'eq', 'lt', 'le', 'bnot', 'band', 'bor'):
                if u[1] == 1: return v
                if u[1] == 0: return bnot(v)
        x, y = sorted((a, b), key=key)
        return ('eq', x, y)
    if op == 'lt':
        if hi < 0: return TRUE
        if lo >= 0: return FALSE
    if op == 'le':
        if hi <= 0: return TRUE
        if lo > 0: return FALSE
    return (op, a, b)

def hexcond(c):
    """c is an ASCII hexadecimal digit (either case)"""
    def in_(lo, hi): return b_and(cmp('le', C(lo), c), cmp('le', c, C(hi)))
    return b_or(in_(48, 57), b_or(in_(65, 70), in_(97, 102)))

def hexval(c):
    """value of the hexadecimal digit c (0 where c is none: callers hold hexcond(c) as a refusal)"""
    def in_(lo, hi): return b_and(cmp('le', C(lo), c), cmp('le', c, C(hi)))
    return ite(in_(48, 57), sub(c, C(48)), ite(in_(65, 70), sub(c, C(55)), ite(in_(97, 102), sub(c, C(87)), ZERO)))

def or_parts(t):
    if t[0] == 'or': return or_parts(t[1]) + or_parts(t[2])
    return [t]

def equal_parts(a, b, facts=(), max_split=12):
    """a == b for bit-packed values: both sides are split into their `|` components, the components are grouped by the
    leaves they mention (a component of a packed field depends on one input), and the groups are compared one by one -
    so that seven fields with a few case distinctions each are seven small problems instead of one product.  Sound: equal
    groups give equal disjunctions."""
    if a == b: return True, None
    while a[0] == 'call' and b[0] == 'call' and a[1] == b[1] and len(a) == len(b) == 3: a, b = a[2], b[2]
    def leaves(t): return frozenset(u for u in subterms(t) if u[0] in ('a', 'sel', 'len') and not (u[0] == 'a' and any(v[0] == 'sel' and v[1] == u for v in subterms(t))))
    def groups(t):
        g = {}
        for p_ in or_parts(t):
            if p_ == ZERO: continue
            g.setdefault(leaves(p_), []).append(p_)
        out = {}
        for k_, ps in g.items():
            r = ZERO
            for p_ in ps: r = bor(r, p_)
            out[k_] = r
        return out
    ga, gb = groups(a), groups(b)
    if set(ga) != set(gb) or len(ga) < 2: return equal(a, b, facts, max_split)
    for k_ in ga:
        ok, w = equal(ga[k_], gb[k_], facts, max_split)
        if not ok: return False, w
    return True, None

# ---------------------------------------------------------------- traversal / substitution

def subterms(t, acc=None):
    if acc is None: acc = set()
    if not isinstance(t, tuple) or not t or not isinstance(t[0], str) or t in acc: return acc
    acc.add(t)
    k = t[0]
    if k in ('c', 'a'): return acc
    if k == 'lin':
        for u, _ in t[1]: subterms(u, acc)
        return acc
    for x in t[1:]:
        if isinstance(x, tuple): subterms(x, acc)
    return acc

def atoms(t):
    return {u for u in subterms(t) if u[0] == 'a'}

def rebuild(t, f):
    """bottom-up rebuild with simplifying constructors; f maps a leaf/term to a replacement or None"""
    r = f(t)
    if r is not None: return r
    k = t[0]
    if k in ('c', 'a'): return t
    if k == 'lin':
        res = C(t[2])
        for u, c in t[1]: res = add(res, scale(rebuild(u, f), c))
        return res
    g = lambda x: rebuild(x, f) if isinstance(x, tuple) and x and isinstance(x[0], str) else x
    if k == 'mul': return mul(g(t[1]), g(t[2]))
    if k == 'and': return band(g(t[1]), g(t[2]))
    if k == 'or': return bor(g(t[1]), g(t[2]))
    if k == 'xor': return bxor(g(t[1]), g(t[2]))
    if k == 'shl': return shl(g(t[1]), g(t[2]))
    if k == 'shr': return shr(g(t[1]), g(t[2]))
    if k == 'div': return div(g(t[1]), g(t[2]))
    if k == 'rem': return rem(g(t[1]), g(t[2]))
    if k == 'ite': return ite(g(t[1]), g(t[2]), g(t[3]))
    if k == 'trunc': return trunc(g(t[1]), t[2])
    if k == 'wrap': return wrap(g(t[1]), t[2])
    if k in ('eq', 'lt', 'le'): return cmp(k, g(t[1]), g(t[2]))
    if k == 'bnot': return bnot(g(t[1]))
    if k == 'band': return b_and(g(t[1]), g(t[2]))
    if k == 'bor': return b_or(g(t[1]), g(t[2]))
    return (k,) + tuple(g(x) for x in t[1:])

def subst(t, m):
    return rebuild(t, lambda x: m.get(x))

def strip_trunc(t):
    """assume every narrowing fits (side conditions are C18's business)"""
    def f(x):
        if x[0] == 'trunc': return strip_trunc(x[1])
        return None
    return rebuild(t, f)

# ---------------------------------------------------------------- deciding equalities

def cond_atoms(t):
    """boolean sub-terms used as conditions of ite (maximal atoms: comparisons, isvar, opaque)"""
    res = set()
    for u in subterms(t):
        if u[0] == 'ite':
            _bool_leaves(u[1], res)
    return res

def _bool_leaves(c, res):
    if c[0] in ('bnot',): _bool_leaves(c[1], res)
    elif c[0] in ('band', 'bor'): _bool_leaves(c[1], res); _bool_leaves(c[2], res)
    elif c[0] != 'c': res.add(c)

def parity_atoms(ts):
    """atoms occurring under a rem(., 2)"""
    res = set()
    for t in ts:
        for u in subterms(t):
            if u[0] == 'rem' and u[2] == C(2):
                res |= {a for a in subterms(u[1]) if a[0] in ('a', 'len')}
    return res

def equal(a, b, facts=(), max_split=10, _depth=0):
    """Decide a == b for all values of the atoms.  Returns (ok, witness_assignment|None).
    Case-splits on the parity of atoms under rem(.,2) and on the truth of every ite-condition;
    each case is decided by canonical-form identity."""
    if a == b: return True, None
    if _depth == 0 and ENUM_DISCR and any(u[0] == 'discr' for u in subterms(a) | subterms(b)) and any(u[0] == 'isvar' for u in subterms(a) | subterms(b)):
        r_ = equal(a, b, facts, max_split, 1)
        if r_[0]: return r_
        # one side converts an enum with `as`, the other by a `match`: a second attempt with both written by cases
        a2_, b2_ = _expand_discr(a), _expand_discr(b)
        if a2_ == b2_: return True, None
        r2_ = equal(a2_, b2_, facts, max_split, 1)
        return r2_ if r2_[0] else r_
    if _depth == 0 and any(u[0] in ('shr', 'and') and u[1][0] in ('or', 'shr') for u in subterms(a) | subterms(b)):
        r_ = equal(a, b, facts, max_split, 1)
        if r_[0]: return r_
        # a packed value taken apart again (`bdf >> 8`, `(bdf >> 3) & 31`): a second attempt with the fields written out
        a2_, b2_ = _extract_under(a, b, facts)
        if a2_ == b2_: return True, None
        r2_ = equal(a2_, b2_, facts, max_split, 1)
        return r2_ if r2_[0] else r_
    pa = sorted(parity_atoms([a, b]), key=key)
    if len(pa) > 6: return False, {'reason': 'too many parity atoms'}
    for par in itertools.product((0, 1), repeat=len(pa)):
        m = {x: add(scale(('a', ('half', key(x))), 2), C(p)) for x, p in zip(pa, par)}
        a1, b1 = (subst(a, m), subst(b, m)) if m else (a, b)
        conds = sorted(cond_atoms(a1) | cond_atoms(b1) | _bit_leaves(a1) | _bit_leaves(b1), key=key)
        # a condition that itself contains a conditional value (`(ite(p, x | 2, x) & 2) == 0`) is not independent of the
        # inner condition: split on the innermost ones first, the outer ones fold or are split in the recursive call
        inner = [c for c in conds if not any(u[0] == 'ite' for u in subterms(c))]
        nested = len(inner) < len(conds) and _depth < 4
        if nested: conds = inner
        if len(conds) > max_split: return False, {'reason': 'too many conditions', 'n': len(conds)}
        for asg in itertools.product((1, 0), repeat=len(conds)):
            cm = {c: C(v) for c, v in zip(conds, asg)}
            if not _consistent(cm, facts): continue
            global CTX
            saved = CTX
            ranges = dict(saved) if saved else {}      # what the caller already knows about ranges holds in every case
            for _r0 in range(3):
                for c, v in zip(conds, asg):
                    if c[0] in ('a', 'sel'): refine(('eq', c, C(1 if v else 0)), ranges)      # a 0/1 leaf decided by cases
                    else: refine(c if v else bnot(c), ranges)
            for _round in range(3):
                CTX = ranges
                for fct in facts:
                    fr_ = rebuild(fct, lambda x: (C(rng(x)[0]) if x in ranges and x[0] != 'c' and rng(x)[0] == rng(x)[1] else cm.get(x)))
                    if fr_ == FALSE: ranges[('a', '$infeasible')] = (1, 0)
                    refine(fr_, ranges)
                CTX = saved
            feasible = True
            for t_, (lo_, hi_) in ranges.items():
                if t_ == ('a', '$infeasible'): feasible = False; break
                b_ = _rng(t_)
                if max(lo_, b_[0]) > min(hi_, b_[1]): feasible = False
            if not feasible: continue
            CTX = ranges
            try:
                def f(x):
                    r = cm.get(x)
                    if r is not None: return r
                    if x in ranges and x[0] != 'c':
                        lo_, hi_ = rng(x)
                        if lo_ == hi_: return C(lo_)
                    if x[0] == 'call' and x[1] in ('npow2', 'bitlen'):
                        # monotone functions of a value the case confines to one bit length / one power of two
                        lo_, hi_ = rng(x)
                        if lo_ == hi_: return C(lo_)
                    return None
                a2, b2 = rebuild(a1, f), rebuild(b1, f)
                # a second pass lets comparisons fold under the refined ranges
                a2, b2 = rebuild(a2, f), rebuild(b2, f)
            finally:
                CTX = saved
            if a2 != b2 and nested:
                fx = tuple(facts) + tuple(c if v else bnot(c) for c, v in zip(conds, asg))
                ok_, w_ = equal(a2, b2, fx, max_split, _depth + 1)
                if ok_: continue
                return False, w_
            if a2 != b2:
                return False, {'parity': {key(x): p for x, p in zip(pa, par)},
                               'conds': {show(c): v for c, v in zip(conds, asg)},
                               'lhs': show(a2), 'rhs': show(b2)}
    return True, None

def _bit_leaves(t):
    """leaves with values 0/1 that sit under a bit operation (`flags | 2*hotpluggable`): decided by cases like conditions"""
    out = set()
    for u in subterms(t):
        if u[0] in ('or', 'and', 'xor'):
            for v in subterms(u):
                if v[0] in ('a', 'sel') and rng(v) == (0, 1): out.add(v)
    return out if len(out) <= 6 else set()

def _field_parts(t):
    """t as a list of (value, shift, width) bit fields when it is an `|` of scaled values with known ranges that do not
    overlap (`function | device << 3 | bus << 8` with function < 8, device < 32, bus < 256); None otherwise"""
    out = []; used = 0
    for p_ in or_parts(t):
        sh = 0; v = p_
        while v[0] == 'lin' and len(v[1]) == 1 and v[2] == 0 and v[1][0][1] > 0 and (v[1][0][1] & (v[1][0][1] - 1)) == 0:
            sh += v[1][0][1].bit_length() - 1; v = v[1][0][0]
        lo, hi = rng(v)
        if lo < 0 or hi >= BIG: return None
        w = max(hi.bit_length(), 1)
        m = ((1 << w) - 1) << sh
        if used & m: return None
        used |= m; out.append((v, sh, w))
    return out

def _extract_fields(t):
    """shifts and low masks of a packed value written out field by field: (a | b << 3 | c << 8) >> 8 is c, ... & 7 is a"""
    def f(u):
        if u[0] == 'shr' and u[2][0] == 'c' and u[1][0] == 'or':
            ps = _field_parts(u[1]); k = u[2][1]
            if ps is None or any(sh < k < sh + w for _, sh, w in ps): return None
            r = ZERO
            for v, sh, w in ps:
                if sh >= k: r = bor(r, scale(_extract_fields(v), 1 << (sh - k)))
            return r
        if u[0] == 'and' and u[2][0] == 'c' and (u[2][1] & (u[2][1] + 1)) == 0:
            x = _extract_fields(u[1]) if u[1][0] in ('shr', 'and') else u[1]
            if x[0] != 'or' and x is not u[1]:
                lo, hi = rng(x)
                return x if lo >= 0 and hi <= u[2][1] else None
            if x[0] != 'or': return None
            ps = _field_parts(x); m = u[2][1].bit_length()
            if ps is None or any(sh < m < sh + w for _, sh, w in ps): return None
            r = ZERO
            for v, sh, w in ps:
                if sh + w <= m: r = bor(r, scale(v, 1 << sh))
            return r
        return None
    return rebuild(t, f)

def _extract_under(a, b, facts):
    global CTX
    saved_ = CTX
    try:
        rr = dict(saved_) if saved_ else {}
        for fct in facts: refine(fct, rr)
        CTX = rr
        return _extract_fields(a), _extract_fields(b)
    finally:
        CTX = saved_

ENUM_DISCR = {}         # scrutinee term -> [(variant name, discriminant)] of its (fieldless) enum

def _expand_discr(t):
    """discr(x) written out by cases over the variants of x's enum (`x as u8` against `match x { A => 0, B => 1, .. }`)"""
    def f(u):
        if u[0] == 'discr' and u[1] in ENUM_DISCR:
            vs = ENUM_DISCR[u[1]]
            r = C(vs[-1][1])
            for nm, d in reversed(vs[:-1]): r = ite(('isvar', u[1], nm), C(d), r)
            return r
        return None
    return rebuild(t, f)

ENUM_VARIANTS = {}      # scrutinee term -> number of variants of its enum (filled in by the interpreter)

def _consistent(cm, facts):
    """cheap mutual-exclusion filter: isvar(x, A) and isvar(x, B) cannot both hold, and not every variant test of
    an enum can fail; facts must hold"""
    seen = {}; neg = {}
    for c, v in cm.items():
        if c[0] == 'isvar' and v[1] == 1:
            if c[1] in seen: return False
            seen[c[1]] = c[2]
        elif c[0] == 'isvar' and v[1] == 0:
            neg.setdefault(c[1], set()).add(c[2])
    for f in facts:
        # variant tests among the facts count too: `x is A` excludes every other variant, `!(x is A)` uses one up
        if f[0] == 'isvar':
            if f[1] in seen and seen[f[1]] != f[2]: return False
            seen.setdefault(f[1], f[2])
        elif f[0] == 'bnot' and f[1][0] == 'isvar':
            neg.setdefault(f[1][1], set()).add(f[1][2])
    for x, vs in neg.items():
        if ENUM_VARIANTS.get(x) is not None and len(vs) >= ENUM_VARIANTS[x]: return False
        if x in seen and seen[x] in vs: return False
    for f in facts:
        if subst(f, cm) == FALSE: return False
    return True

# ---------------------------------------------------------------- display

def show(t, depth=0):
    if not isinstance(t, tuple): return str(t)
    k = t[0]
    if k == 'c': return hex(t[1]) if abs(t[1]) > 255 else str(t[1])
    if k == 'a': return str(t[1])
    if k == 'lin':
        parts = []
        for u, c in t[1]:
            s = show(u)
            parts.append(s if c == 1 else ('-' + s if c == -1 else '%d*%s' % (c, s)))
        if t[2]: parts.append(str(t[2]))
        return '(' + ' + '.join(parts) + ')'
    if k == 'mul': return '%s*%s' % (show(t[1]), show(t[2]))
    if k in ('and', 'or', 'xor', 'shl', 'shr', 'div', 'rem'):
        op = {'and': '&', 'or': '|', 'xor': '^', 'shl': '<<', 'shr': '>>', 'div': '/', 'rem': '%'}[k]
        return '(%s %s %s)' % (show(t[1]), op, show(t[2]))
    if k == 'ite': return 'ite(%s, %s, %s)' % (show(t[1]), show(t[2]), show(t[3]))
    if k == 'trunc': return 'trunc%d(%s)' % (t[2], show(t[1]))
    if k == 'wrap': return '(%s mod %d)' % (show(t[1]), t[2])
    if k in ('eq', 'lt', 'le'):
        return '(%s %s %s)' % (show(t[1]), {'eq': '==', 'lt': '<', 'le': '<='}[k], show(t[2]))
    if k == 'bnot': return '!' + show(t[1])
    if k == 'band': return '(%s && %s)' % (show(t[1]), show(t[2]))
    if k == 'bor': return '(%s || %s)' % (show(t[1]), show(t[2]))
    if k == 'S':
        x = t[1]
        if isinstance(x, tuple) and x and x[0] == 'LE': return 'S[le%d(%s)]' % (x[2], show(x[1]))
        if isinstance(x, tuple) and x and x[0] in ('raw', 'emit'): return 'S[%s %s]' % (x[0], show(x[1]))
        return 'S[%s]' % (repr(x)[:80],)
    if k == 'Ssum': return 'SUM_{%s<%s}(%s)' % (t[2], show(t[1]), show(t[3]))
    if k == 'len': return 'len(%s)' % show(t[1])
    if k == 'sel': return '%s[%s]' % (show(t[1]), show(t[2]))
    if k == 'discr': return 'discr(%s)' % show(t[1])
    if k == 'isvar': return '%s is %s' % (show(t[1]), t[2])
    if k == 'payload': return '%s.%s.%s' % (show(t[1]), t[2], t[3])
    if k == 'call':
        if t[1] == 'replen': return 'replen(%s)' % (show(t[2][1]) + '*|body|')
        return '%s(%s)' % (t[1], ', '.join(show(x) for x in t[2:]))
    return '%s(%s)' % (k, ', '.join(show(x) for x in t[1:]))
