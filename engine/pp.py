"""Compact pretty-printer for the THIR JSON (development aid and report rendering)."""
import json, sys

def pe(e, ind=0):
    k = e.get('k')
    if k == 'Block':
        out = ['{']
        for s in e['stmts']:
            if s['k'] == 'Let':
                out.append('  ' * (ind + 1) + 'let ' + pp(s['pat']) + (' = ' + pe(s['init'], ind + 1) if 'init' in s else '') + ';')
            else:
                out.append('  ' * (ind + 1) + pe(s['e'], ind + 1) + ';')
        if 'expr' in e:
            out.append('  ' * (ind + 1) + pe(e['expr'], ind + 1))
        out.append('  ' * ind + '}')
        return '\n'.join(out)
    if k == 'Call':
        c = e.get('resolved') or e.get('callee') or '<fnptr>'
        g = ''
        if e.get('rkind') == 'virtual': c = 'dyn ' + c
        return '%s(%s)' % (c, ', '.join(pe(a, ind) for a in e['args']))
    if k == 'Var' or k == 'Upvar': return e['name']
    if k == 'Field': return pe(e['lhs'], ind) + '.' + e['name']
    if k == 'Deref': return '*' + pe(e['arg'], ind)
    if k == 'Borrow': return ('&mut ' if e.get('mut') else '&') + pe(e['arg'], ind)
    if k == 'Lit':
        for x in ('int', 'bool', 'str', 'bytes', 'char'):
            if x in e: return repr(e[x]) + (':' + e['ty'] if x == 'int' else '')
        return '<lit>'
    if k == 'Const': return e['path'] + '=' + json.dumps(e['value'])
    if k == 'Binary': return '(%s %s %s)' % (pe(e['lhs'], ind), e['op'], pe(e['rhs'], ind))
    if k == 'Logical': return '(%s %s %s)' % (pe(e['lhs'], ind), e['op'], pe(e['rhs'], ind))
    if k == 'Unary': return '%s(%s)' % (e['op'], pe(e['arg'], ind))
    if k == 'Cast': return '(%s as %s)' % (pe(e['arg'], ind), e['ty'])
    if k == 'Coerce': return 'coerce<%s>(%s)' % (e['cast'], pe(e['arg'], ind))
    if k == 'Assign': return '%s = %s' % (pe(e['lhs'], ind), pe(e['rhs'], ind))
    if k == 'AssignOp': return '%s %s= %s' % (pe(e['lhs'], ind), e['op'], pe(e['rhs'], ind))
    if k == 'If':
        s = 'if %s %s' % (pe(e['cond'], ind), pe(e['then'], ind))
        if 'else' in e: s += ' else ' + pe(e['else'], ind)
        return s
    if k == 'LetCond': return 'let %s = %s' % (pp(e['pat']), pe(e['e'], ind))
    if k == 'Match':
        out = ['match[%s] %s {' % (e['source'], pe(e['scrut'], ind))]
        for a in e['arms']:
            out.append('  ' * (ind + 1) + pp(a['pat']) + (' if ' + pe(a['guard'], ind + 1) if 'guard' in a else '') + ' => ' + pe(a['body'], ind + 1) + ',')
        out.append('  ' * ind + '}')
        return '\n'.join(out)
    if k == 'Loop': return 'loop ' + pe(e['body'], ind)
    if k == 'Break': return 'break' + (' ' + pe(e['value'], ind) if 'value' in e else '')
    if k == 'Continue': return 'continue'
    if k == 'Return': return 'return' + (' ' + pe(e['value'], ind) if 'value' in e else '')
    if k == 'Index': return '%s[%s]' % (pe(e['lhs'], ind), pe(e['index'], ind))
    if k == 'Adt':
        fs = ', '.join('%s: %s' % (f['name'], pe(f['e'], ind)) for f in e['fields'])
        b = ', ..' + pe(e['base'], ind) if 'base' in e else ''
        nm = e['adt'] + ('::' + e['variant'] if e['is_enum'] else '')
        return '%s{%s%s}' % (nm, fs, b)
    if k == 'Tuple': return '(%s)' % ', '.join(pe(a, ind) for a in e['fields'])
    if k == 'Array': return '[%s]' % ', '.join(pe(a, ind) for a in e['fields'])
    if k == 'Repeat': return '[%s; %s]' % (pe(e['value'], ind), e['count'])
    if k == 'Closure': return 'closure<%s>(%s)' % (e['def'], ', '.join(pe(a, ind) for a in e['upvars']))
    if k == 'Zst': return e.get('fn', '<zst:%s>' % e['ty'])
    return '<%s %s>' % (k, e.get('dbg', ''))

def pp(p):
    k = p['k']
    if k == 'Binding':
        return p['name'] + ('@' + pp(p['sub']) if 'sub' in p else '')
    if k == 'Wild': return '_'
    if k == 'Variant':
        return '%s::%s{%s}' % (p['adt'], p['variant'], ', '.join(s['field'] + ':' + pp(s['pat']) for s in p['subs']))
    if k == 'Leaf': return '{%s}' % ', '.join(s['field'] + ':' + pp(s['pat']) for s in p['subs'])
    if k == 'Deref': return '&' + pp(p['sub'])
    if k == 'Constant': return str(p['value'])
    if k == 'Or': return ' | '.join(pp(q) for q in p['pats'])
    if k == 'Guard': return pp(p['sub']) + ' if ' + pe(p['cond'])
    return '<pat %s %s>' % (k, p.get('dbg', ''))

if __name__ == '__main__':
    f = json.load(open(sys.argv[1]))
    for b in f['bodies']:
        if any(a in b['def'] for a in sys.argv[2:]):
            print('fn', b['def'], [ (pp(p['pat']) if 'pat' in p else '?') + ':' + p['ty'] for p in b.get('params', [])], '->', b.get('ret'))
            print(pe(b['body']))
            print()
