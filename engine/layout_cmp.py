"""Comparison of an emission shape with a specification layout (spec/layouts.py item lists)."""
from sym import *
import sym
from evalr import norm_segs, seglen, seqlen, show_segs

ANY = ('any',)

def term_of(v, P):
    if v is None: return ANY
    if isinstance(v, int): return C(v)
    if isinstance(v, str): return ('a', v)
    if callable(v): return v(P)
    raise ValueError(v)

def build(items, P):
    """-> (segments, tags) where tags[i] is the tag of segment i (None for composite)"""
    segs = []; tags = []
    for it in items:
        if isinstance(it[0], int):
            w, v, tag = it
            segs.append(('int', term_of(v, P), w)); tags.append(tag)
        elif it[0] == 'raw':
            _, v, n, tag = it
            if isinstance(v, (bytes, bytearray)):
                for b in v: segs.append(('int', C(b), 1)); tags.append(tag)
            else:
                segs.append(('raw', ('a', v), C(n))); tags.append(tag)
        elif it[0] == 'rawvar':
            segs.append(('raw', ('a', it[1]), ('len', ('a', it[1])))); tags.append(None)
        elif it[0] == 'arr':
            _, name, count, sub = it
            s2, _ = build(sub, P)
            segs.append(('rep', term_of(count, P), name + '[i]', tuple(s2))); tags.append(('arr', name))
        elif it[0] == 'fill':
            _, name, count, sub = it
            s2, _ = build(sub, P)
            segs.append(('rep', term_of(count, P), None, tuple(s2))); tags.append(('arr', name))
        elif it[0] == 'opt':
            _, cond, a, b = it
            sa, _ = build(a, P); sb, _ = build(b, P)
            segs.append(('cond', cond(P), tuple(sa), tuple(sb))); tags.append(None)
        elif it[0] == 'opaque':
            segs.append(('opaque', ('a', it[1]))); tags.append(None)
        else:
            raise ValueError(it)
    return segs, tags

def explode(segs):
    """constant integers -> single constant bytes (so that chunking of constants does not matter)"""
    out = []
    for s in segs:
        if s[0] == 'int' and s[1] != ANY and s[1][0] == 'c' and s[2] > 1:
            for i in range(s[2]): out.append(('int', C((s[1][1] >> (8 * i)) & 0xff), 1))
        elif s[0] == 'rep':
            if s[2] is None and s[1][0] == 'c' and s[1][1] <= 64 and all(x[0] == 'int' and x[1][0] == 'c' for x in s[3]):
                for _ in range(s[1][1]): out.extend(explode(list(s[3])))
            else: out.append(('rep', s[1], s[2], tuple(explode(list(s[3])))))
        elif s[0] == 'cond': out.append(('cond', s[1], tuple(explode(list(s[2]))), tuple(explode(list(s[3])))))
        else: out.append(s)
    return out

def expl_with_tags(segs, tags):
    out = []; ot = []
    for s, t in zip(segs, tags):
        e = explode([s])
        out.extend(e); ot.extend([t] * len(e))
    return out, ot

def merge_tagged(segs, tags):
    """apply the emission normalisation (slices of one value merge into that value) to the specification side too"""
    from evalr import merge_bytes
    out = []; ot = []; i = 0
    while i < len(segs):
        # try to merge a run of untagged integer segments starting here
        j = i
        while j < len(segs) and segs[j][0] == 'int' and tags[j] is None and segs[j][1] != ANY: j += 1
        if j - i >= 2:
            m = merge_bytes(list(segs[i:j]))
            out.extend(m); ot.extend([None] * len(m)); i = j; continue
        out.append(segs[i]); ot.append(tags[i]); i += 1
    return out, ot

def expand_small_reps(segs):
    """a repetition of constant bytes whose count is known to lie in a small interval [lo, hi] (padding of 1 or 2 zero
    bytes) is lo copies followed by nested conditions `lo + k < count`"""
    out = []
    for s in segs:
        if s[0] == 'rep' and s[2] is None and s[1][0] != 'c' and all(x[0] == 'int' and x[1][0] == 'c' for x in s[3]):
            lo, hi = rng(s[1])
            if 0 <= lo <= hi <= lo + 3 and hi <= 8:
                out.extend(list(s[3]) * lo)
                def nest(k):
                    if k >= hi: return ()
                    return (('cond', cmp('lt', C(k), s[1]), tuple(s[3]) + nest(k + 1), ()),)
                out.extend(nest(lo))
                continue
        out.append(s)
    return out

def _same_cond(a, b, facts):
    return a == b or equal(ite(a, ONE, ZERO), ite(b, ONE, ZERO), facts)[0]

def resolve_conds(segs, facts):
    """conditional segments whose condition is decided by the facts are replaced by the branch taken"""
    out = []
    for s in segs:
        if s[0] == 'cond':
            b = ite(s[1], ONE, ZERO)
            if equal(b, ONE, facts)[0]: out.extend(resolve_conds(list(s[2]), facts))
            elif equal(b, ZERO, facts)[0]: out.extend(resolve_conds(list(s[3]), facts))
            else: out.append(('cond', s[1], tuple(resolve_conds(list(s[2]), facts)), tuple(resolve_conds(list(s[3]), facts))))
        elif s[0] == 'rep': out.append(('rep', s[1], s[2], tuple(resolve_conds(list(s[3]), facts))))
        else: out.append(s)
    return out

def compare(got, exp_segs, exp_tags, facts=(), _depth=0):
    """-> list of mismatches [(offset str, what)]; wildcard values (ANY) match any term of the same width.
    When the two sides distribute their conditions differently (`if c {A} ; if c {X}` against `if c {A; X}`, an early
    return on one case, ...) the comparison is repeated under each truth value of the first condition involved."""
    mism = _compare(got, exp_segs, exp_tags, facts)
    if not mism or _depth >= 8: return mism
    from model import _specialise
    def first_cond(segs):
        for s in segs:
            if s[0] == 'cond': return s[1]
        return None
    c = first_cond(norm_segs(list(exp_segs))) or first_cond(norm_segs(list(got)))
    if c is None: return mism
    if c[0] == 'bnot': c = c[1]
    for v in (True, False):
        fx = tuple(facts) + ((c,) if v else (bnot(c),))
        g_ = resolve_conds(_specialise(list(got), c, v), fx)
        e_ = resolve_conds(_specialise(list(exp_segs), c, v), fx)
        if compare(g_, e_, [None] * len(e_), fx, _depth + 1): return mism
    return []

def _compare(got, exp_segs, exp_tags, facts=()):
    got = explode(norm_segs(expand_small_reps(norm_segs(list(got)))))
    exp_segs, exp_tags = merge_tagged(exp_segs, exp_tags)
    exp, tags = expl_with_tags(exp_segs, exp_tags)
    # drop empty expected segments consistently with norm_segs
    pairs = [(s, t) for s, t in zip(exp, tags) if not (s[0] == 'rep' and (s[1] == ZERO or not s[3])) and not (s[0] == 'raw' and s[2] == ZERO)]
    exp = [p[0] for p in pairs]; tags = [p[1] for p in pairs]
    mism = []
    pos = ZERO
    i = j = 0
    while i < len(got) and j < len(exp):
        g, e = got[i], exp[j]
        where = show(pos)
        if e[0] == 'int' and e[1] == ANY:
            # any value of the specified width: consume that many bytes of integer segments
            need = e[2]; k = i
            while k < len(got) and need > 0 and got[k][0] == 'int' and got[k][2] <= need: need -= got[k][2]; k += 1
            if need != 0: mism.append((where, 'a %d-byte field is specified here; image has %s' % (e[2], show_segs(got[i:i + 2])))); break
            pos = add(pos, C(e[2])); i = k; j += 1; continue
        if g[0] == 'int' and e[0] == 'int' and g[2] != e[2] and e[1] != ANY and g[1][0] != 'c':
            # a value emitted through a wider integer than it needs (`sink.qword(u64::from(flags))` for flags:4 ++ 0:4) is the
            # narrow field followed by zero bytes - and the other way round
            wide, narrow = (g, e) if g[2] > e[2] else (e, g)
            lo_, hi_ = rng(wide[1])
            if lo_ >= 0 and hi_ < (1 << (8 * narrow[2])):
                parts = [('int', wide[1], narrow[2]), ('int', ZERO, wide[2] - narrow[2])]
                if wide is g: got[i:i + 1] = parts
                else: exp[j:j + 1] = parts; tags[j:j + 1] = [tags[j], None]
                continue
            # a wider/narrower field than specified: reported once; the comparison goes on field by field (positions are
            # the specification's), so that a second, unrelated deviation further on is not hidden behind this one
            mism.append((where, 'width %d, specified %d (%s vs %s)' % (g[2], e[2], show(g[1]), show(e[1]))))
            pos = add(pos, C(e[2])); i += 1; j += 1; continue
        if g[0] != e[0]:
            mism.append((where, 'emits %s, specified %s' % (show_segs([g]), show_segs([e]) if e[1:2] != (ANY,) else 'a %d-byte field' % e[2])))
            if {g[0], e[0]} <= {'int', 'raw'} and (g[1][0] != 'c' if g[0] == 'int' else True):
                # one field emitted in another form / width: same resynchronisation
                pos = add(pos, seglen(e)); i += 1; j += 1; continue
            break
        if g[0] == 'int':
            if g[2] != e[2]: mism.append((where, 'width %d, specified %d' % (g[2], e[2]))); break
            if e[1] != ANY:
                ok, w = equal(strip_trunc(g[1]), strip_trunc(e[1]), facts)
                if not ok: mism.append((where, 'value %s, specified %s' % (show(g[1]), show(e[1]))))
        elif g[0] == 'raw':
            if g[1] != e[1] or not equal(g[2], e[2], facts)[0]: mism.append((where, 'bytes %s, specified %s' % (show_segs([g]), show_segs([e]))))
        elif g[0] == 'opaque':
            if g[1] != e[1]: mism.append((where, 'child %s, specified %s' % (show(g[1]), show(e[1]))))
        elif g[0] == 'rep':
            if not equal(strip_trunc(g[1]), strip_trunc(e[1]), facts)[0]: mism.append((where, 'repetition count %s, specified %s' % (show(g[1]), show(e[1]))))
            sub = compare(g[3], list(e[3]), [None] * len(e[3]), facts)
            mism += [('%s+[i]*+%s' % (where, o), w) for o, w in sub]
        elif g[0] == 'cond':
            if not _same_cond(g[1], e[1], facts):
                mism.append((where, 'condition %s, specified %s' % (show(g[1]), show(e[1]))))
            else:
                for a, b in ((g[2], e[2]), (g[3], e[3])):
                    sub = compare(a, list(b), [None] * len(b), facts)
                    mism += [('%s+%s' % (where, o), w) for o, w in sub]
        else:
            if g != e: mism.append((where, '%r vs %r' % (g, e)))
        pos = add(pos, seglen(g)); i += 1; j += 1
    if (not mism or all('width' in w or 'emits' in w for _, w in mism)) and (i < len(got) or j < len(exp)) and not (mism and i >= len(got) and j >= len(exp)):
        mism.append((show(pos), 'image has %s here, specification has %s' % (show_segs(got[i:i + 3]) if i < len(got) else 'nothing more', show_segs(exp[j:j + 3]) if j < len(exp) else 'nothing more')))
    return mism

def tagged_positions(exp_segs, exp_tags):
    """[(offset term, segment, tag)] for tagged top-level segments"""
    out = []; pos = ZERO
    for s, t in zip(exp_segs, exp_tags):
        if t is not None: out.append((pos, s, t))
        pos = add(pos, seglen(s) if s[1:2] != (ANY,) else C(s[2]))
    return out
