"""Perturbation audit (thorough tier): how much of the analysed program does the rule actually depend on?

For a property, the rule is re-run on copies of the *facts* (the typed program as extracted from /repo's working
tree - nothing is compiled or executed) in which exactly one construct inside one of the functions the rule
analysed has been perturbed: an integer literal changed by one, an arithmetic or comparison operator replaced by
its neighbour, two adjacent statements exchanged, a branch condition negated, two same-typed arguments of a call or
two same-typed field initialisers of a struct literal exchanged, a statement executed for its effect removed.  A
perturbation after which the rule reports something it did not report before is *noticed*.  The audit reports
the share of noticed perturbations and lists the ones that went unnoticed, each with file:line - those are either
irrelevant to this property (an opcode constant does not matter to a checksum ledger) or a blind spot worth a
look.  It is a measure of the rule's reach and a guard against a rule that has silently become vacuous: the
check fails if the share falls below the floor recorded for the property."""
import copy, random, json

OPS = {'Add': 'Sub', 'Sub': 'Add', 'Mul': 'Add', 'Shl': 'Shr', 'Shr': 'Shl', 'BitOr': 'BitAnd', 'BitAnd': 'BitOr',
       'Lt': 'Le', 'Le': 'Lt', 'Gt': 'Ge', 'Ge': 'Gt', 'Eq': 'Ne', 'Ne': 'Eq'}

def sites_of(body):
    """[(path, kind)] of perturbable constructs in a THIR body; path = list of keys/indices from the body root"""
    out = []
    def walk(x, path):
        if isinstance(x, dict):
            k = x.get('k')
            if k == 'Lit' and isinstance(x.get('int'), int) and not x.get('mac_debug'): out.append((path, 'lit'))
            elif k == 'Binary' and x.get('op') in OPS: out.append((path, 'op'))
            elif k == 'AssignOp' and x.get('op', '').replace('Assign', '') in OPS: out.append((path, 'assignop'))
            elif k == 'If': out.append((path, 'negate'))
            elif k == 'Call' and len(x.get('args', [])) >= 2 and _same_typed_pair(x['args']) is not None: out.append((path, 'argswap'))
            elif k == 'Adt' and not x.get('is_enum') and _same_typed_pair([fd['e'] for fd in x.get('fields', [])]) is not None: out.append((path, 'fieldswap'))
            elif k == 'Block' and len(x.get('stmts', [])) >= 1:
                for i in range(len(x['stmts']) - 1):
                    a, b = x['stmts'][i], x['stmts'][i + 1]
                    if a.get('k') == 'Expr' and b.get('k') == 'Expr': out.append((path + ['stmts', i], 'swap'))
                for i, a in enumerate(x['stmts']):
                    # a statement evaluated for its effect only (a call, an assignment): what if it were forgotten?
                    if a.get('k') == 'Expr' and isinstance(a.get('e'), dict) and a['e'].get('ty') in ('()', None) and not _is_panic(a['e']): out.append((path + ['stmts', i], 'drop'))
            for kk, v in x.items():
                if kk in ('sp', 'ty', 'from'): continue
                walk(v, path + [kk])
        elif isinstance(x, list):
            for i, v in enumerate(x): walk(v, path + [i])
    walk(body, [])
    return out

def _is_panic(e):
    s = json.dumps(e)
    return 'core::panicking::' in s

def _same_typed_pair(es):
    """indices of the first two expressions of identical (non-unit) type that are not syntactically equal"""
    for i in range(len(es)):
        for j in range(i + 1, len(es)):
            a, b = es[i], es[j]
            if isinstance(a, dict) and isinstance(b, dict) and a.get('ty') and a.get('ty') == b.get('ty') and a.get('ty') != '()' and _strip_sp(a) != _strip_sp(b):
                return i, j
    return None

def _strip_sp(x):
    if isinstance(x, dict): return {k: _strip_sp(v) for k, v in x.items() if k != 'sp'}
    if isinstance(x, list): return [_strip_sp(v) for v in x]
    return x

def _get(root, path):
    for p in path: root = root[p]
    return root

def apply(body, path, kind):
    """returns (perturbed deep copy of the body, description) or None"""
    b = copy.deepcopy(body)
    if kind == 'drop':
        blk = _get(b, path[:-2]); i = path[-1]
        sp = (blk['stmts'][i].get('e') or {}).get('sp')
        del blk['stmts'][i]
        return b, 'statement removed', sp
    if kind == 'swap':
        blk = _get(b, path[:-2]); i = path[-1]
        blk['stmts'][i], blk['stmts'][i + 1] = blk['stmts'][i + 1], blk['stmts'][i]
        sp = (blk['stmts'][i].get('e') or {}).get('sp')
        return b, 'two adjacent statements exchanged', sp
    node = _get(b, path)
    sp = node.get('sp')
    if kind == 'lit':
        old = node['int']; node['int'] = old + 1 if old != 255 else 254
        return b, 'literal %d -> %d' % (old, node['int']), sp
    if kind == 'op':
        old = node['op']; node['op'] = OPS[old]
        return b, 'operator %s -> %s' % (old, node['op']), sp
    if kind == 'assignop':
        old = node['op']; base = old.replace('Assign', ''); node['op'] = old.replace(base, OPS[base])
        return b, 'operator %s -> %s' % (old, node['op']), sp
    if kind == 'argswap':
        i, j = _same_typed_pair(node['args'])
        node['args'][i], node['args'][j] = node['args'][j], node['args'][i]
        return b, 'arguments %d and %d of the call to %s exchanged' % (i, j, (node.get('callee') or '?').split('::')[-1]), sp
    if kind == 'fieldswap':
        es = [fd['e'] for fd in node['fields']]
        i, j = _same_typed_pair(es)
        node['fields'][i]['e'], node['fields'][j]['e'] = node['fields'][j]['e'], node['fields'][i]['e']
        return b, 'initialisers of fields %s and %s exchanged' % (node['fields'][i]['name'], node['fields'][j]['name']), sp
    if kind == 'negate':
        c = node.get('cond')
        if not isinstance(c, dict): return None
        node['cond'] = {'k': 'Unary', 'op': 'Not', 'arg': c, 'ty': 'bool', 'sp': c.get('sp')}
        return b, 'branch condition negated', c.get('sp')
    return None

def audit(mod, ctx_factory, facts, analysed, baseline_keys, n, seed):
    """run the audit; returns the evidence record"""
    from ir import Facts
    defs = sorted(d for d in analysed if d in facts.bodies and facts.bodies[d].get('body') is not None and not facts.bodies[d].get('derived'))
    pool = []
    for d in defs:
        for path, kind in sites_of(facts.bodies[d]['body']): pool.append((d, path, kind))
    rnd = random.Random(seed * 7919 + 17)
    rnd.shuffle(pool)
    # spread over kinds and functions: round-robin by kind
    by_kind = {}
    for s in pool: by_kind.setdefault(s[2], []).append(s)
    picked = []
    while len(picked) < n and any(by_kind.values()):
        for k in sorted(by_kind):
            if by_kind[k] and len(picked) < n: picked.append(by_kind[k].pop())
    noticed = 0; rows = []
    for d, path, kind in picked:
        r = apply(facts.bodies[d]['body'], path, kind)
        if r is None: continue
        nb, desc, sp = r
        raw2 = dict(facts.raw)
        raw2['bodies'] = [(dict(b, body=nb) if b['def'] == d else b) for b in facts.raw['bodies']]
        try:
            f2 = Facts(None, raw=raw2)
            ctx2, rep2 = ctx_factory(f2)
            mod.run(ctx2, rep2)
            keys = {v['key'] for v in rep2.violations}
            hit = sorted(keys - baseline_keys)
        except Exception as ex:
            hit = ['internal:%s' % type(ex).__name__]
        noticed += 1 if hit else 0
        rows.append({'function': d, 'where': sp, 'perturbation': desc, 'noticed': bool(hit), 'first_report': hit[0][:120] if hit else None})
    tried = len(rows)
    return {'sites_available': len(pool) + len(picked), 'tried': tried, 'noticed': noticed,
            'share_noticed': round(noticed / tried, 3) if tried else None,
            'unnoticed': [r for r in rows if not r['noticed']][:60], 'noticed_examples': [r for r in rows if r['noticed']][:8]}
