"""Emission shapes E(T): evaluate every `impl Aml for T` on a symbolic receiver."""
import sys, os
sys.path.insert(0, os.path.dirname(__file__))
from ir import Facts, norm_ty
from evalr import Interp, Frame, OuterSink, RefV, Cell, Top, show_segs, norm_segs
import sym

def emission(facts, self_ty, abstract=('aml::create_pkg_length',), name='self'):
    """-> (segs, interp) for <self_ty as Aml>::to_aml_bytes(&self, sink)"""
    d = facts.method('Aml', self_ty, 'to_aml_bytes')
    I = Interp(facts, abstract)
    I.st.frames.append(Frame('<root>'))
    selfv = I.sym_value('&' + norm_ty(self_ty), name)
    sink = OuterSink(); I.st.roots.append(sink)
    r = I.call_local(d, [selfv, RefV(Cell(sink), True)])
    if I.st.dead: I.top('every evaluated path of the serialiser of %s panics (it refuses all inputs)' % self_ty, None)
    sym.CTX = {}
    return norm_segs(sink.segs), I, sink

if __name__ == '__main__':
    f = Facts(sys.argv[1])
    pat = sys.argv[2] if len(sys.argv) > 2 else ''
    bad = 0; n = 0
    for st, im in f.impls_of('Aml'):
        if pat and pat not in st: continue
        n += 1
        try:
            segs, I, sink = emission(f, st)
        except Exception as ex:
            import traceback; traceback.print_exc()
            print('EXC', st, ex); bad += 1; continue
        flag = 'TOP ' if I.tops else 'ok  '
        if I.tops: bad += 1
        print(flag, st, show_segs(segs))
        for t in I.tops[:3]: print('      top:', t)
    print(n, 'impls', bad, 'with tops')
