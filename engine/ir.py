"""Fact-file loader and indexes."""
import json, os, re, sys

class Facts:
    def __init__(self, path, raw=None):
        self.path = path
        if raw is not None:
            self.raw = raw          # an in-memory variant of already loaded (canonicalised) facts
        else:
            with open(path) as f:
                self.raw = json.load(f)
        self.canon_paths = {}
        cp = (self.raw.get('canon_paths') or []) if raw is None else []
        if cp:
            # items are named by the shortest path through which they can be named from the crate root, so that moving an
            # item into a sub-module (and re-exporting / importing it under its old name) changes nothing for the rules
            text = json.dumps(self.raw)
            for row in sorted(cp, key=lambda x: -len(x['def'])):
                self.canon_paths[row['def']] = row['canon']
                text = re.sub(r'(?<![\w:])' + re.escape(row['def']) + r'(?![\w])', row['canon'], text)
            self.raw = json.loads(text)
            self.raw['canon_paths'] = cp
        r = self.raw
        self.role_renames = canonicalise_roles(r)
        self.crate = r['crate']
        self.cfg = r['cfg']
        self.sources = r['sources']
        self.adts = {a['path']: a for a in r['adts']}
        self.consts = {c['path']: c for c in r['consts']}
        # crate-private helper structs that only group state of another struct (no wire layout of their own)
        used_as_field = {fd['ty'].replace("'_", '') for a in r['adts'] if a.get('kind') == 'Struct' for v in a['variants'] for fd in v['fields'] if fd.get('vis') == 'priv'}
        self.transparent = {a['path'] for a in r['adts'] if a.get('kind') == 'Struct' and a.get('vis') == 'priv' and not a.get('generic')
                            and not a.get('repr_c') and not a.get('repr_packed') and a['path'] in used_as_field}
        # crate-private newtypes (`struct NameSeg([u8; 4])`): a symbolic value of one is named like its only field
        self.newtypes = {a['path'] for a in r['adts'] if a.get('kind') == 'Struct' and a.get('vis') == 'priv' and not a.get('generic')
                         and len(a['variants']) == 1 and len(a['variants'][0]['fields']) == 1 and a['variants'][0]['fields'][0]['name'] == '0'}
        self.bodies = {}
        for b in r['bodies']:
            self.bodies[b['def']] = b
        self.mir = {m['def']: m for m in r['mir']}
        self.impls = r['impls']
        self.derived_fns = r['derived_fns']
        self.statics = r['statics']
        # (trait, self type) -> {method name -> def}
        self.trait_impls = {}
        for im in self.impls:
            if 'trait' in im:
                d = self.trait_impls.setdefault((im['trait'], im['self']), {})
                for it in im['items']:
                    d[it['name']] = it['def']
        # trait default methods: trait -> {name -> def}
        self.trait_defaults = {}
        for b in r['bodies']:
            t = b.get('trait_default_of')
            if t:
                self.trait_defaults.setdefault(t, {})[b['name']] = b['def']
        # inherent methods: self type -> {name -> def}
        self.inherent = {}
        for b in r['bodies']:
            if b.get('self_ty') and not b.get('trait') and b.get('name'):
                self.inherent.setdefault(norm_ty(b['self_ty']), {})[b['name']] = b['def']

    def adt(self, path):
        return self.adts.get(path)

    def impls_of(self, trait):
        """[(self type, impl record)] of non-derived impls of a local trait"""
        return [(im['self'], im) for im in self.impls if im.get('trait') == trait]

    def method(self, trait, self_ty, name):
        d = self.trait_impls.get((trait, self_ty))
        if d and name in d:
            return d[name]
        # lifetime-insensitive match
        n = norm_ty(self_ty)
        for (t, s), dd in self.trait_impls.items():
            if t == trait and norm_ty(s) == n and name in dd:
                return dd[name]
        # impls over a const / type parameter (`impl<const N: usize> Tr for [u8; N]`): the parameter matches anything
        for (t, s), dd in self.trait_impls.items():
            if t == trait and name in dd and re.search(r'\b[A-Z]\b', norm_ty(s)):
                pat = re.sub(r'\\b?([A-Z])\\b?', '', '')  # (placeholder, see below)
                pat = '^' + re.sub(r'(?<![\w:])[A-Z](?![\w:])', '.+', re.escape(norm_ty(s)).replace('\\ ', ' ')) + '$'
                try:
                    if re.match(pat, n): return dd[name]
                except re.error:
                    pass
        return None

    def verify_sources(self, root):
        """recompute FNV-1a of every source file rustc read; raise on mismatch (stale facts)"""
        for s in self.sources:
            p = s['path'] if os.path.isabs(s['path']) else os.path.join(root, s['path'])
            with open(p, 'rb') as f:
                data = f.read()
            h = 0xcbf29ce484222325
            for b in data:
                h ^= b
                h = (h * 0x100000001b3) & 0xffffffffffffffff
            if '%016x' % h != s['fnv1a64']:
                raise RuntimeError('stale facts: %s changed since extraction' % p)

def canonicalise_roles(raw):
    """rename private state fields to their canonical role names (spec/roles.py); returns {adt: {actual: canonical}}"""
    _sp = os.path.join(os.path.dirname(os.path.dirname(os.path.abspath(__file__))), 'spec')
    if _sp not in sys.path: sys.path.insert(0, _sp)
    if os.path.dirname(_sp) not in sys.path: sys.path.insert(0, os.path.dirname(_sp))
    from spec.roles import ROLES
    ren = {}; nested = {}
    by_path = {a['path']: a for a in raw['adts']}
    from spec.roles import vector_roles
    VR = vector_roles()
    for a in raw['adts']:
        roles = list(ROLES.get(a['path']) or []) + list(VR.get(a['path']) or [])
        if not roles or a.get('kind') != 'Struct' or len(a['variants']) != 1: continue
        fields = a['variants'][0]['fields']
        m = {}
        for canon, tys in roles:
            ok_ty = (lambda ty: tys(ty)) if callable(tys) else (lambda ty: ty in tys)
            cands = [fd for fd in fields if fd.get('vis') == 'priv' and ok_ty(fd['ty'].replace("'_", ''))]
            if len(cands) == 1 and cands[0]['name'] != canon: m[cands[0]['name']] = canon
            if not cands:
                # the state may be grouped into a crate-private helper struct held in a private field: one level down
                hits = []
                for fd in fields:
                    inner = by_path.get(fd['ty'].replace("'_", ''))
                    if fd.get('vis') != 'priv' or not inner or inner.get('vis') != 'priv' or inner.get('kind') != 'Struct' or len(inner['variants']) != 1: continue
                    hits += [(inner, x) for x in inner['variants'][0]['fields'] if ok_ty(x['ty'].replace("'_", ''))]
                if len(hits) == 1 and hits[0][1]['name'] != canon:
                    inner, x = hits[0]
                    if all(y['name'] != canon for y in inner['variants'][0]['fields']):
                        nested.setdefault(inner['path'], {})[x['name']] = canon
        # a rename must not collide with another field that keeps its name
        keep = {fd['name'] for fd in fields if fd['name'] not in m}
        if not m or any(c in keep for c in m.values()) or len(set(m.values())) != len(m): continue
        ren[a['path']] = m
    for k, m in nested.items():
        if k not in ren: ren[k] = m
    apply_field_renames(raw, ren)
    return ren

def apply_field_renames(raw, ren):
    """rename fields {adt: {actual: canonical}} in the struct definitions, projections, struct literals and patterns"""
    if not ren: return
    for a in raw['adts']:
        m = ren.get(a['path'])
        if not m: continue
        for var in a['variants']:
            for fd in var['fields']:
                if fd['name'] in m: fd['name'] = m[fd['name']]
    def base_ty(t):
        return strip_refs(norm_ty(t))
    def walk(x):
        if isinstance(x, dict):
            k = x.get('k')
            if k == 'Field' and isinstance(x.get('lhs'), dict):
                m = ren.get(base_ty(x['lhs'].get('ty', '')))
                if m and x.get('name') in m: x['name'] = m[x['name']]
            elif k == 'Adt' and x.get('adt') in ren:
                m = ren[x['adt']]
                for fd in x.get('fields', []):
                    if fd.get('name') in m: fd['name'] = m[fd['name']]
            elif k in ('Leaf', 'Variant') and 'subs' in x:
                m = ren.get(x.get('adt') or base_ty(x.get('ty', '')))
                if m:
                    for sp_ in x['subs']:
                        if sp_.get('field') in m: sp_['field'] = m[sp_['field']]
            for v in x.values(): walk(v)
        elif isinstance(x, list):
            for v in x: walk(v)
    walk(raw['bodies'])

_LT = re.compile(r"'[a-z_]+\s*,?\s*|&'[a-z_]+ ")

def norm_ty(t):
    """drop lifetimes: aml::Package<'_> -> aml::Package, &'a T -> &T"""
    t = re.sub(r"<'[a-z_0-9]+>", '', t)
    t = re.sub(r"'[a-z_0-9]+,\s*", '', t)
    t = re.sub(r"&'[a-z_0-9]+ ", '&', t)
    t = re.sub(r"::<>", '', t)
    t = re.sub(r"\(dyn ([\w:]+) \+ '[a-z_0-9]+\)", r'dyn \1', t)
    t = re.sub(r"dyn ([\w:]+) \+ '[a-z_0-9]+", r'dyn \1', t)
    return t

def strip_refs(t):
    t = t.strip()
    while True:
        if t.startswith('&mut '): t = t[5:]
        elif t.startswith('&'):
            t = t[1:]
            m = re.match(r"'[a-z_0-9]+ ", t)
            if m: t = t[m.end():]
        else: break
    return t.strip()

def split_generics(t):
    """'a::B<X, Y<Z>>' -> ('a::B', ['X', 'Y<Z>'])"""
    i = t.find('<')
    if i < 0 or not t.endswith('>'): return t, []
    base = t[:i]; inner = t[i + 1:-1]
    args = []; depth = 0; cur = ''
    for ch in inner:
        if ch in '<[(':
            depth += 1
        elif ch in '>])':
            depth -= 1
        if ch == ',' and depth == 0:
            args.append(cur.strip()); cur = ''
        else:
            cur += ch
    if cur.strip(): args.append(cur.strip())
    return base, args
