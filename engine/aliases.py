"""Positional aliases for private fields of serialised structures.

The specification tables name some private fields of entry structures ("the flags field of a Memory Affinity
structure").  What identifies such a field is its **place in the emitted bytes**, not its Rust name: for every
structure whose layout the specification gives, the serialiser is evaluated on a symbolic receiver, and the
private field found at the offset and width where the specification places field X is renamed X in the facts
(only when the structure has no field called X already).  After this no rule depends on the name a private
field happens to have; a field that is emitted at the wrong place keeps its own name and the layout and option
rules report it as before."""
import os, sys
from sym import *
from ir import apply_field_renames, norm_ty

def resolve(facts):
    if getattr(facts, '_aliases_done', False): return facts.alias_renames
    facts._aliases_done = True; facts.alias_renames = {}
    from model import with_offsets          # (puts spec/ on the module path)
    import layouts as SPEC
    from layout_cmp import build, tagged_positions
    from emit import emission
    ren = {}
    for (ty, ctor), sp in SPEC.STRUCTS.items():
        adt = facts.adt(ty)
        if not adt or adt.get('kind') != 'Struct': continue
        names = {fd['name']: fd for fd in adt['variants'][0]['fields']}
        try:
            exp, tags = build(sp['items'], {})
        except Exception:
            continue
        want = [(p, s, t) for (p, s, t) in tagged_positions(exp, tags) if isinstance(t, tuple) and t[0] == 'setter']
        missing = [(p, s, t) for (p, s, t) in want if t[1] not in names]
        if not missing: continue
        aml_ty = ty if facts.method('Aml', ty, 'to_aml_bytes') else next((st for st, _ in facts.impls_of('Aml') if norm_ty(st).split('<')[0] == ty), None)
        if aml_ty is None: continue
        try:
            segs, I, _ = emission(facts, aml_ty)
            lst, _ = with_offsets(segs)
        except Exception:
            continue
        if I.tops: continue
        at = {show(p): g for p, g in lst}
        spec_names = {t[1] for (_, _, t) in want}
        m = {}
        for p, s, t in missing:
            g = at.get(show(p))
            if g is None or g[0] != 'int' or g[2] != s[2] or g[1][0] != 'a' or not isinstance(g[1][1], str) or not g[1][1].startswith('self.'): continue
            actual = g[1][1][5:]
            fd = names.get(actual)
            if fd is None or fd.get('vis') != 'priv' or actual in spec_names or actual in m: continue
            m[actual] = t[1]
        if m and len(set(m.values())) == len(m): ren[ty] = m
    if ren:
        apply_field_renames(facts.raw, ren)
        # caches keyed on the facts object hold values computed with the old names
        try:
            import model
            model._INV_CACHE.pop(id(facts), None); model._CNT_CACHE.pop(id(facts), None)
        except Exception:
            pass
    facts.alias_renames = ren
    return ren
