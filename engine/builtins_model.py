"""Transfer functions for the std / zerocopy functions the crate calls (DESIGN Appendix A).
Anything not listed evaluates to Top (fail closed)."""
import copy, re
from sym import *
import sym
from evalr import (flatten_stores, fcopy, SeqV, RefV, Cell, StructV, EnumV, TupleV, DynV, ClosureV, IterV, RangeV, SliceV, Top, UNIT,
                   OuterSink, is_term, seqlen, seglen, norm_segs, int_bits, S_of, FieldPlace, IndexPlace)
from ir import norm_ty, strip_refs, split_generics

def deref(v):
    while isinstance(v, RefV): v = v.place.get()
    return v

def _tgt(v):
    """identity of the object a mutation event is about (the underlying sequence for a view)"""
    if isinstance(v, SliceV): v = v.seq
    return getattr(v, 'uid', None)

def _iter_clone(it, **kw):
    r = IterV(kw.get('seq', it.seq), kw.get('by_ref', it.by_ref), kw.get('kind', it.kind), kw.get('maps', it.maps), kw.get('enum', it.enum))
    for k_, v_ in it.__dict__.items():
        if k_ not in ('seq', 'by_ref', 'kind', 'maps', 'enum'): setattr(r, k_, v_)
    return r

def opt_none(ty=None): return EnumV('core::option::Option', 'None', {}, ty=ty)
def opt_some(v, ty=None): return EnumV('core::option::Option', 'Some', {'0': v}, ty=ty)

def abstract_call(I, name, args, e):
    if name == 'aml::create_pkg_length':
        n, inc = args
        return SeqV('u8', [('pkglen', n, inc)])
    return None

def call(I, name, args, e):
    n = name
    a0 = deref(args[0]) if args else None
    ty = norm_ty(e.get('ty', ''))

    # ---------------- conversions: identity between uN and zerocopy UN<LE>, widening
    if n in ('<T as core::convert::Into<U>>::into', '<T as core::convert::From<T>>::from', 'core::convert::Into::into', 'core::convert::From::from') or n.startswith('core::convert::num::<impl core::convert::From<') or n.startswith('zerocopy::byteorder::<impl core::convert::From<'):
        src = norm_ty(I.resolve_ty(e['args'][0]['ty'])); ty = norm_ty(I.resolve_ty(ty))
        if is_term(a0):
            sb, tb = int_bits(src), int_bits(ty)
            if sb and tb and tb >= sb: return a0
            if sb and tb and tb < sb: return I.top('narrowing into()', e)
        if src == 'bool' and int_bits(ty) and is_term(a0): return a0     # From<bool>: false -> 0, true -> 1
        if src == ty: return args[0]
        # user From impl
        d = None
        want = norm_ty('<%s as core::convert::From<%s>>::from' % (ty, src))
        cands = [k for k, b_ in I.f.bodies.items() if b_.get('trait') == 'core::convert::From' and b_.get('name') == 'from' and norm_ty(b_.get('self_ty') or '') == ty]
        def csrc_(k):
            m_ = re.search(r'From<(.+)> for .+>::from$', norm_ty(k)) or re.search(r'From<(.+)>>::from$', norm_ty(k))
            return m_.group(1) if m_ else ''
        for k in cands:
            if norm_ty(k) == want or csrc_(k) == src: d = k
        if d is None:
            # the argument's static type may be a type parameter here: choose by the value's own type, never by default
            vty = a0.path if isinstance(a0, (StructV, EnumV)) else None
            hits = [k for k in cands if vty and csrc_(k).split('<')[0] == vty]
            if len(hits) == 1: d = hits[0]
            elif is_term(a0) and int_bits(ty):
                # an integer value converted to an integer type through a type parameter: the std widening conversion
                return a0
        if d is None and not cands: d = I.f.method('core::convert::From', ty, 'from')
        if d is None and cands: return I.top('into %s -> %s: no matching From impl' % (src, ty), e)
        if d: return I.call_local(d, [args[0]], e)
        return I.top('into %s -> %s' % (src, ty), e)
    m = re.match(r'^zerocopy::(U16|U32|U64)::<O>::(get|set|new)$', n)
    if m:
        if m.group(2) in ('get',): return a0
        if m.group(2) == 'new': return args[0]
        args[0].place.set(args[1]); return UNIT

    # ---------------- smart-pointer views and operators on references
    if n in ('<alloc::boxed::Box<T, A> as core::convert::AsRef<T>>::as_ref', '<alloc::boxed::Box<T, A> as core::borrow::Borrow<T>>::borrow',
             '<alloc::boxed::Box<T, A> as core::ops::Deref>::deref', '<alloc::vec::Vec<T, A> as core::convert::AsRef<[T]>>::as_ref',
             '<alloc::vec::Vec<T, A> as core::ops::Deref>::deref', '<[T] as core::convert::AsRef<[T]>>::as_ref', '<[T; N] as core::convert::AsRef<[T]>>::as_ref') and args:
        return args[0]
    mo_ = re.match(r'^<&?(?:\'\w+ )?\w+ as core::ops::(Shl|Shr|Add|Sub|Mul|BitOr|BitAnd|BitXor|Div|Rem)<&?(?:\'\w+ )?\w+>>::\w+$', n)
    if mo_ and len(args) == 2:
        x_, y_ = deref(args[0]), deref(args[1])
        if is_term(x_) and is_term(y_): return I.arith(mo_.group(1), x_, y_, ty, e)
    # ---------------- the `?` operator: Try::branch / FromResidual::from_residual on Result and Option
    if n in ('<core::result::Result<T, E> as core::ops::Try>::branch', '<core::option::Option<T> as core::ops::Try>::branch') and isinstance(a0, EnumV):
        is_res = 'Result' in n; okv = 'Ok' if is_res else 'Some'
        def residual():
            if not is_res: return opt_none()
            return EnumV('core::result::Result', 'Err', {'0': a0.fields['0'] if a0.variant == 'Err' and '0' in a0.fields else I.enum_payload(a0, 'Err', '0')})
        if a0.variant == okv: return EnumV('core::ops::ControlFlow', 'Continue', {'0': a0.fields['0']}, ty=ty)
        if a0.variant is not None: return EnumV('core::ops::ControlFlow', 'Break', {'0': residual()}, ty=ty)
        ev = EnumV('core::ops::ControlFlow', None, sym=('a', I.fresh_name('try')), ty=ty)
        ev.some_cond = getattr(a0, 'some_cond', None) or ('isvar', a0.sym, okv)
        ev.payload_cache[('Continue', '0')] = I.enum_payload(a0, okv, '0')
        n_t = len(I.tops)
        ev.payload_cache[('Break', '0')] = residual()
        if is_res and len(I.tops) != n_t:
            # the error value of a symbolic Result is not modelled: an opaque payload (it only travels to the caller)
            del I.tops[n_t:]
            ev.payload_cache[('Break', '0')] = EnumV('core::result::Result', 'Err', {'0': ('a', I.fresh_name('err'))})
        return ev
    if n.endswith('>::from_residual') and 'core::ops::FromResidual' in n and isinstance(a0, EnumV):
        if a0.path == 'core::option::Option': return opt_none(ty)
        if a0.path == 'core::result::Result':
            ev_ = a0.fields.get('0') if a0.variant == 'Err' else None
            return EnumV('core::result::Result', 'Err', {'0': ev_ if ev_ is not None else ('a', I.fresh_name('err'))}, ty=ty)
    # ---------------- calling a closure / function value through the Fn traits: f(args)
    if n in ('core::ops::FnOnce::call_once', 'core::ops::FnMut::call_mut', 'core::ops::Fn::call') and len(args) == 2:
        fv = args[0]
        while isinstance(fv, RefV): fv = fv.place.get()
        tup = args[1]
        while isinstance(tup, RefV): tup = tup.place.get()
        if isinstance(fv, ClosureV) and (isinstance(tup, TupleV) or tup is UNIT or isinstance(tup, type(UNIT))):
            return I.call_closure(fv, list(tup.items) if isinstance(tup, TupleV) else [], e)
        return I.top('call of a function value that is not a known closure', e)
    # ---------------- mem::replace / swap / take on places
    if n == 'core::mem::replace' and isinstance(args[0], RefV):
        old = args[0].place.get(); args[0].place.set(args[1]); I.log.append(('mutate', n, e.get('sp'), _tgt(a0))); return old
    if n == 'core::mem::swap' and isinstance(args[0], RefV) and isinstance(args[1], RefV):
        x, y = args[0].place.get(), args[1].place.get(); args[0].place.set(y); args[1].place.set(x); I.log.append(('mutate', n, e.get('sp'), _tgt(a0))); return UNIT
    if n == 'core::mem::take' and isinstance(args[0], RefV):
        old = args[0].place.get(); dv = default_value(I, ty, e)
        if isinstance(dv, Top): return dv
        args[0].place.set(dv); I.log.append(('mutate', n, e.get('sp'), _tgt(a0))); return old

    # ---------------- size_of / default
    if n == 'core::mem::size_of':
        sz = e['generic_sizes'][0]
        if sz is None: sz = I.size_of_ty(e['generics'][0])
        if sz is None: return ('call', 'size_of', ('a', I.resolve_ty(e['generics'][0])))
        return C(sz)
    if n in ('core::char::convert::<impl core::convert::From<u8> for char>::from', 'core::char::methods::<impl char>::from_u32_unchecked') and is_term(a0):
        return a0
    if n in ('core::str::<impl str>::is_ascii', 'core::slice::ascii::<impl [u8]>::is_ascii') and isinstance(a0, SeqV):
        c_ = ('call', 'is_ascii', ('a', a0.name or '?')); sym.CALL_RANGE[c_] = (0, 1)
        return cmp('ne', c_, ZERO)
    if n == 'core::mem::size_of_val':
        t_ = strip_refs(norm_ty(I.resolve_ty(e['args'][0].get('ty', ''))))
        sz = I.size_of_ty(t_)
        if sz is not None: return C(sz)
        if isinstance(a0, SeqV): return mul(seqlen(a0.segs), C(1)) if a0.is_bytes() else I.top('size_of_val of a non-byte slice', e)
        return I.top('size_of_val of %s' % t_, e)
    if 'core::default::Default' in n and n.endswith('::default'):
        return default_value(I, norm_ty(I.resolve_ty(ty)), e)

    # ---------------- Vec / slices / strings
    if n in ('alloc::vec::Vec::<T>::new', 'alloc::vec::Vec::<T>::with_capacity', 'alloc::string::String::new'):
        _, ga = split_generics(ty)
        return SeqV(ga[0] if ga else 'u8', [])
    if n == 'alloc::vec::Vec::<T, A>::push':
        I.log.append(('mutate', n, e.get('sp'), _tgt(a0)))
        s = a0; v = args[1]
        if not isinstance(s, SeqV): return I.top('push on %r' % (s,), e)
        if s.is_bytes():
            if isinstance(v, RefV) and is_term(deref(v)): v = deref(v)
            if not is_term(v): return I.top('push non-scalar byte', e)
            s.segs.append(('int', v, 1))
        else:
            s.segs.append(('elem', v))
        return UNIT
    if n == 'alloc::vec::Vec::<T, A>::extend_from_slice':
        I.log.append(('mutate', n, e.get('sp'), _tgt(a0)))
        s = a0; src = deref(args[1])
        if isinstance(src, SliceV):
            r = I.slice_segs(src)
            if r is None: return I.top('extend_from_slice of unresolved sub-slice', e)
            s.segs.extend(r); return UNIT
        if not isinstance(s, SeqV) or not isinstance(src, SeqV): return I.top('extend_from_slice', e)
        if src.stores:
            fl = flatten_stores(src)
            if fl is None: return I.top('extend_from_slice from a stored-to source', e)   # stores into the destination address earlier positions only
            s.segs.extend(norm_segs(fl)); return UNIT
        s.segs.extend(src.segs); return UNIT
    if n == 'alloc::vec::Vec::<T, A>::append':
        I.log.append(('mutate', n, e.get('sp'), _tgt(a0)))
        s = a0; src = deref(args[1])
        if not isinstance(s, SeqV) or not isinstance(src, SeqV) or src.stores or s.stores: return I.top('append', e)
        s.segs.extend(src.segs); src.segs = []; return UNIT
    if n in ('alloc::vec::Vec::<T, A>::len', 'core::slice::<impl [T]>::len', 'core::str::<impl str>::len', 'alloc::string::String::len'):
        if isinstance(a0, SeqV):
            r_ = seqlen(a0.segs)
            if n == 'alloc::vec::Vec::<T, A>::len' and is_term(r_) and r_[0] != 'c' and a0.elem not in ('()', None):
                # a Vec of sized, non-zero-sized elements holds at most isize::MAX bytes (its allocation is refused beyond that)
                o_ = I.st.ranges.get(r_, (0, sym.BIG))
                I.st.ranges[r_] = (max(o_[0], 0), min(o_[1], (1 << 63) - 1))
                sym.refine(('le', r_, C((1 << 63) - 1)), I.st.ranges)      # and so is every part of a sum of lengths
            return r_
        if isinstance(a0, SliceV): return sub(a0.hi, a0.lo)
        return I.top('len of %r' % (a0,), e)
    if n in ('alloc::vec::Vec::<T, A>::is_empty',):
        return cmp('eq', seqlen(a0.segs), ZERO)
    if n in ('<alloc::vec::Vec<T, A> as core::ops::Deref>::deref', '<alloc::vec::Vec<T, A> as core::ops::DerefMut>::deref_mut',
             'alloc::vec::Vec::<T, A>::as_slice', 'alloc::vec::Vec::<T, A>::as_mut_slice', '<alloc::string::String as core::ops::Deref>::deref',
             'core::str::<impl str>::as_bytes', 'alloc::string::String::as_bytes', 'alloc::string::String::as_str',
             'core::array::<impl [T; N]>::as_slice'):
        return args[0] if isinstance(args[0], RefV) else RefV(Cell(a0))
    if n == '<alloc::vec::Vec<T, A> as core::clone::Clone>::clone':
        return fcopy(a0)
    if n == 'alloc::vec::Vec::<T, A>::resize':
        I.log.append(('mutate', n, e.get('sp'), _tgt(a0)))
        s = a0; newlen = args[1]; v = args[2]
        cur = seqlen(s.segs)
        d = sub(newlen, cur)
        lo, hi = rng(d)
        if lo < 0 and not any(cmp('le', cur, newlen) == f for f, _ in I.st.facts):
            # growth not provable: record as assumption (Vec::resize would truncate)
            I.assumptions.append(('resize grows', show(d), e.get('sp'))) if hasattr(I, 'assumptions') else None
        if s.is_bytes(): s.segs.append(('rep', d, None, (('int', v, 1),)))
        else: s.segs.append(('fill', d, v))
        s.segs = norm_segs(s.segs) if s.is_bytes() else s.segs
        return UNIT
    if n == 'alloc::vec::from_elem':
        v, cnt = args
        if not hasattr(I, 'alloc_atoms'): I.alloc_atoms = set()
        I.alloc_atoms |= {u for u in subterms(cnt) if u[0] == 'a'} if is_term(cnt) else set()
        _, ga = split_generics(ty)
        el = ga[0]
        if el == 'u8': return SeqV('u8', [('rep', cnt, None, (('int', v, 1),))])
        return SeqV(el, [('fill', cnt, v)])
    if n == 'alloc::boxed::box_assume_init_into_vec_unsafe':
        return a0 if isinstance(a0, SeqV) else I.top('vec! expansion', e)
    if n == 'alloc::intrinsics::write_box_via_move':
        return deref(args[1])
    if n == 'alloc::boxed::Box::<T>::new_uninit':
        return UNIT
    if n == 'alloc::boxed::Box::<T>::new':
        return args[0]
    if n in ('<alloc::vec::Vec<T, A> as core::ops::Index<I>>::index', '<alloc::vec::Vec<T, A> as core::ops::IndexMut<I>>::index_mut',
             'core::slice::index::<impl core::ops::Index<I> for [T]>::index', 'core::slice::index::<impl core::ops::IndexMut<I> for [T]>::index_mut',
             'core::array::<impl core::ops::Index<I> for [T; N]>::index', 'core::array::<impl core::ops::IndexMut<I> for [T; N]>::index_mut',
             'core::str::traits::<impl core::ops::Index<I> for str>::index'):
        s = a0; idx = args[1]
        if isinstance(s, SliceV) and isinstance(s.seq, SeqV) and is_term(s.lo):
            # indexing a sub-slice is indexing the sequence at the shifted position (bounds are those of the sub-slice)
            sl_hi = s.hi if s.hi is not None else seqlen(s.seq.segs)
            sl_len = sub(sl_hi, s.lo)
            if isinstance(idx, RangeV) and is_term(idx.lo) and (idx.hi is None or is_term(idx.hi)):
                hi = idx.hi if idx.hi is not None else sl_len
                c_ = b_and(cmp('le', idx.lo, hi), cmp('le', hi, sl_len))
                if c_ == FALSE:
                    I.st.dead = True; return UNIT
                if c_ != TRUE:
                    I.guards.append({'cond': c_, 'sp': e.get('sp'), 'kind': 'slice-bounds'})
                    I.st.facts.append((c_, None)); sym.refine(c_, I.st.ranges)
                return RefV(Cell(SliceV(s.seq, add(s.lo, idx.lo), add(s.lo, hi))))
            if is_term(idx):
                c_ = cmp('lt', idx, sl_len)
                if c_ == FALSE:
                    I.st.dead = True; return UNIT
                if c_ != TRUE: I.guards.append({'cond': c_, 'sp': e.get('sp'), 'kind': 'slice-bounds'})
                return RefV(IndexPlace(I, s.seq, add(s.lo, idx)))
        if isinstance(s, SeqV):
            if isinstance(idx, RangeV):
                total_ = seqlen(s.segs)
                hi = idx.hi if idx.hi is not None else total_
                # slicing refuses lo > hi and hi > len: on the path that continues both bounds hold
                if is_term(idx.lo) and is_term(hi):
                    c_ = b_and(cmp('le', idx.lo, hi), cmp('le', hi, total_))
                    if c_ == FALSE:
                        I.st.dead = True; return UNIT
                    if c_ != TRUE:
                        I.guards.append({'cond': c_, 'sp': e.get('sp'), 'kind': 'slice-bounds'})
                        I.st.facts.append((c_, None)); sym.refine(c_, I.st.ranges)
                return RefV(Cell(SliceV(s, idx.lo, hi)))
            if is_term(idx): return RefV(IndexPlace(I, s, idx))
            if isinstance(idx, StructV) and idx.path == 'core::ops::RangeFull': return args[0] if isinstance(args[0], RefV) else RefV(Cell(s))
        return I.top('index of %r by %r' % (s, idx), e)
    if n == 'core::slice::<impl [T]>::copy_from_slice':
        I.log.append(('mutate', n, e.get('sp'), _tgt(a0)))
        dst = a0; src = deref(args[1])
        if isinstance(dst, SeqV) and isinstance(src, SeqV):
            # whole-sequence overwrite (lengths must agree: copy_from_slice panics otherwise)
            I.guards.append({'cond': cmp('eq', seqlen(dst.segs), seqlen(src.segs)), 'sp': e.get('sp'), 'kind': 'copy_from_slice-len'})
            dst.segs = list(src.segs); dst.stores = []
            return UNIT
        if isinstance(dst, SliceV) and isinstance(src, (SeqV, SliceV)):
            srcsegs = list(src.segs) if isinstance(src, SeqV) else I.slice_segs(src)
            if srcsegs is None: return I.top('copy_from_slice source', e)
            dst.seq.stores.append((('range', dst.lo, dst.hi), tuple(srcsegs)))
            return UNIT
        return I.top('copy_from_slice %r <- %r' % (dst, src), e)
    if n in ('core::slice::<impl [T]>::split_at', 'core::slice::<impl [T]>::split_at_mut', 'core::str::<impl str>::split_at'):
        mid = args[1]
        if isinstance(a0, SeqV) and is_term(mid):
            I.guards.append({'cond': cmp('le', mid, seqlen(a0.segs)), 'sp': e.get('sp'), 'kind': 'split_at-bound'})
            return TupleV([RefV(Cell(SliceV(a0, ZERO, mid))), RefV(Cell(SliceV(a0, mid, seqlen(a0.segs))))])
        if isinstance(a0, SliceV) and is_term(mid):
            return TupleV([RefV(Cell(SliceV(a0.seq, a0.lo, add(a0.lo, mid)))), RefV(Cell(SliceV(a0.seq, add(a0.lo, mid), a0.hi)))])
        return I.top('split_at of %r' % (a0,), e)
    if n in ('core::slice::<impl [T]>::first', 'core::slice::<impl [T]>::last'):
        if isinstance(a0, SeqV) and not a0.stores:
            ln = seqlen(a0.segs)
            if ln[0] == 'c' and ln[1] > 0:
                return opt_some(RefV(IndexPlace(I, a0, ZERO if n.endswith('first') else C(ln[1] - 1))))
            if ln == ZERO: return opt_none()
        return I.top('first/last of %r' % (a0,), e)
    if n == 'core::slice::<impl [T]>::copy_within':
        I.log.append(('mutate', n, e.get('sp'), _tgt(a0)))
        s = a0; r = args[1]; dest = args[2]
        if isinstance(s, SeqV) and isinstance(r, RangeV):
            s.stores.append((('within', r.lo, r.hi, dest), None))
            return UNIT
        return I.top('copy_within', e)
    if n in ('core::slice::<impl [T]>::iter', 'core::slice::<impl [T]>::iter_mut'):
        return IterV(a0, True)
    if n in ('<I as core::iter::IntoIterator>::into_iter', "<&'a alloc::vec::Vec<T, A> as core::iter::IntoIterator>::into_iter",
             "core::slice::iter::<impl core::iter::IntoIterator for &'a [T]>::into_iter",
             "<&'a mut alloc::vec::Vec<T, A> as core::iter::IntoIterator>::into_iter",
             "core::slice::iter::<impl core::iter::IntoIterator for &'a mut [T]>::into_iter"):
        if isinstance(args[0], RefV): return IterV(a0, True)
        if isinstance(a0, IterV): return a0
        if isinstance(a0, SeqV): return IterV(a0, False)
        if isinstance(a0, RangeV): return IterV(a0, False, kind='range')
        return I.top('into_iter of %r' % (a0,), e)
    if n == 'core::array::iter::<impl core::iter::IntoIterator for [T; N]>::into_iter':
        return IterV(a0, False)
    if n.endswith('as core::iter::Iterator>::for_each') or n == 'core::iter::Iterator::for_each':
        cl = args[1]
        I.iterate(a0, lambda el: I.call_closure(cl, [el], e), e)
        return UNIT
    if n.endswith('as core::iter::Iterator>::fold') or n == 'core::iter::Iterator::fold':
        init, cl = args[1], args[2]
        acc = Cell(init); key_ = '$fold%d' % id(acc)
        I.frame().vars[key_] = acc
        def step(el):
            c_ = I.frame().vars[key_]          # (the cell of the state this iteration runs in: branches work on copies)
            c_.v = I.call_closure(cl, [c_.v, el], e)
        I.iterate(a0, step, e)
        r_ = I.frame().vars.pop(key_)
        return r_.v
    if n == 'core::str::<impl str>::chars':
        return IterV(a0, False, kind='chars')
    if n == 'core::iter::Iterator::collect':
        if isinstance(a0, IterV) and a0.kind == 'chars':
            # Vec<char> of a string: element i is the i-th char; modelled as the byte sequence itself
            # under the crate's ASCII-only use (length and indices coincide for ASCII input; non-ASCII
            # input changes the length and is refused by the length assertion).
            s = a0.seq
            nm = s.name or I.fresh_name('str')
            sym.SEL_RANGE[('a', nm)] = (0, 255)
            return SeqV('char', [('sym', ('a', nm))], name=nm)
    if n == 'core::iter::Iterator::nth' or n.endswith('as core::iter::Iterator>::nth'):
        if isinstance(a0, IterV) and a0.kind == 'chars' and is_term(args[1]):
            s = a0.seq
            nm = s.name or 'str'
            pos_ = getattr(a0, 'pos', ZERO)
            t = ('sel', ('a', nm), add(pos_, args[1])); sym.SEL_RANGE[('a', nm)] = (0, 255)
            a0.pos = add(add(pos_, args[1]), ONE)
            return opt_some(t)
        return I.top('nth', e)
    if n in ('core::iter::Iterator::skip',) or n.endswith('as core::iter::Iterator>::skip'):
        if isinstance(a0, IterV) and a0.kind == 'chars' and is_term(args[1]) and not a0.maps:
            r_ = IterV(a0.seq, a0.by_ref, a0.kind); r_.pos = add(getattr(a0, 'pos', ZERO), args[1]); return r_
        return I.top('skip on %r' % (a0,), e)
    if n in ('core::iter::Iterator::next',) or n.endswith('as core::iter::Iterator>::next'):
        # the next character of a string iterator at a known position (the nth model with a cursor)
        if isinstance(a0, IterV) and a0.kind == 'chars' and not a0.maps:
            s = a0.seq; nm = s.name or 'str'
            pos_ = getattr(a0, 'pos', ZERO)
            t = ('sel', ('a', nm), pos_); sym.SEL_RANGE[('a', nm)] = (0, 255)
            a0.pos = add(pos_, ONE)
            return opt_some(t)
        return I.top('next on %r' % (a0,), e)
    if n in ('core::iter::Iterator::zip',) or n.endswith('as core::iter::Iterator>::zip'):
        b0 = deref(args[1])
        if isinstance(b0, SeqV): b0 = IterV(b0, isinstance(args[1], RefV))
        def as_iter(x):
            # ranges as zip partners: `a..b` with constant bounds is its elements; `a..` counts up from a
            rg = x.seq if isinstance(x, IterV) and isinstance(x.seq, RangeV) and not x.maps else x
            if isinstance(rg, RangeV) and is_term(rg.lo):
                if rg.hi is None:
                    r = IterV(None, False, kind='slice'); r.count_from = rg.lo; return r
                if is_term(rg.hi) and rg.lo[0] == 'c' and rg.hi[0] == 'c' and 0 <= rg.hi[1] - rg.lo[1] <= 64:
                    return IterV(SeqV('usize', [('elem', C(i)) for i in range(rg.lo[1], rg.hi[1])]), False)
            return x
        a0, b0 = as_iter(a0), as_iter(b0)
        if isinstance(a0, IterV) and isinstance(b0, IterV) and not a0.maps and not b0.maps and a0.kind == b0.kind == 'slice':
            r_ = IterV(None, False, kind='zip'); r_.parts = (a0, b0); return r_
        return I.top('zip of %r and %r' % (a0, b0), e)
    if n == 'core::str::<impl str>::starts_with':
        pat = args[1]
        s = a0
        return ('call', 'starts_with', ('a', s.name or '?'), pat if is_term(pat) else ('a', '?'))
    if n == 'core::slice::<impl [T]>::split' and len(args) == 2 and isinstance(a0, (SeqV, SliceV)) and (a0.seq if isinstance(a0, SliceV) else a0).is_bytes():
        # bytes.split(|b| *b == K): the separator predicate evaluated on an arbitrary byte must be equality with a constant;
        # it is then the split of the string at that character
        bt = ('a', I.fresh_name('splitbyte')); sym.CTX[bt] = (0, 255) if isinstance(sym.CTX, dict) else None
        n_t = len(I.tops)
        pr = I.call_closure(args[1], [RefV(Cell(bt))], e)
        sep = None
        if len(I.tops) == n_t and is_term(pr):
            for k_ in range(256):
                if pr == cmp('eq', bt, C(k_)) or pr == cmp('eq', C(k_), bt): sep = C(k_); break
        if sep is None:
            del I.tops[n_t:]
            return I.top('slice::split with a separator predicate that is not equality with a constant', e)
        args = [args[0], sep]; n = 'core::str::<impl str>::split'
    if n == 'core::str::<impl str>::split':
        s = a0
        base = s.seq if isinstance(s, SliceV) else s
        lo = s.lo if isinstance(s, SliceV) else ZERO
        nm = (base.name or 'str') + '.split(%s,from=%s)' % (show(args[1]), show(lo))
        hi = s.hi if isinstance(s, SliceV) and s.hi is not None else ('len', ('a', base.name or 'str'))
        if hi != seqlen(base.segs) and hi != ('len', ('a', base.name or 'str')): return I.top('split of a proper prefix of a string', e)
        # the parts are an uninterpreted function of (string, separator, start offset)
        st_ = ('call', 'split', ('a', base.name or 'str'), args[1] if is_term(args[1]) else ('a', '?'), lo)
        return IterV(SeqV('&str', [('sym', st_)], name=nm), False, kind='split')

    # ---------------- small std helpers that refactors like to use
    if n.endswith('as core::iter::Iterator>::map') or n == 'core::iter::Iterator::map':
        if isinstance(a0, IterV):
            r_ = IterV(a0.seq, a0.by_ref, a0.kind, a0.maps + [args[1]], a0.enum)
            for k_ in ('parts', 'inner', 'fn', 'count_from', 'value', 'pos'):
                if hasattr(a0, k_): setattr(r_, k_, getattr(a0, k_))
            return r_
        if isinstance(a0, RangeV): return IterV(a0, False, 'slice', [args[1]])
        return I.top('map over %r' % (a0,), e)
    if n in ('core::option::Option::<T>::iter', 'core::option::Option::<T>::iter_mut') or (n.endswith('::into_iter') and isinstance(a0, EnumV) and a0.path == 'core::option::Option'):
        if isinstance(a0, EnumV): return IterV(a0, n.endswith('iter') or isinstance(args[0], RefV), kind='option')
        return I.top('Option::iter of %r' % (a0,), e)
    if n.endswith('as core::iter::Iterator>::flatten') or n == 'core::iter::Iterator::flatten':
        if isinstance(a0, IterV) and a0.kind == 'option' and not a0.maps: return IterV(a0.seq, a0.by_ref, kind='optflat')
        if isinstance(a0, IterV):
            r_ = IterV(None, False, kind='flat_map'); r_.inner = a0; r_.fn = None; return r_      # the elements of every element
        return I.top('flatten of %r' % (a0,), e)
    if n in ('alloc::slice::<impl [T]>::concat', 'alloc::slice::<impl [V]>::concat') and isinstance(a0, SeqV) and not a0.stores:
        # [[u8; N]] / [Vec<u8>] -> Vec<u8>: the elements' bytes one after the other
        out_ = []
        for sg in a0.segs:
            if sg[0] == 'elem' and isinstance(deref(sg[1]), SeqV) and deref(sg[1]).is_bytes():
                fl = flatten_stores(deref(sg[1]))
                if fl is None: return I.top('concat over a stored-to element', e)
                out_.extend(fl)
            elif sg[0] == 'sym' and re.match(r'^\[u8; (\d+)\]$', a0.elem):
                n_ = int(re.match(r'^\[u8; (\d+)\]$', a0.elem).group(1)); nm_ = show(sg[1]) + '[i]'
                out_.append(('rep', ('len', sg[1]), nm_, (('raw', ('a', nm_), C(n_)),)))
            else: return I.top('concat over segment %s' % sg[0], e)
        return SeqV('u8', norm_segs(out_))
    m_ = re.match(r'^core::array::<impl core::convert::TryFrom<&(?:mut )?\[T\]> for (?:&)?\[T; N\]>::try_from$', n)
    if m_ or (n == '<T as core::convert::TryInto<U>>::try_into' and re.match(r'^core::result::Result<&?\[u8; \d+\]', ty)):
        mm_ = re.search(r'\[u8; (\d+)\]', ty)
        src_ = a0
        if mm_ and isinstance(src_, (SeqV, SliceV)):
            n_ = int(mm_.group(1))
            segs_ = list(src_.segs) if isinstance(src_, SeqV) and not src_.stores else (I.slice_segs(src_) if isinstance(src_, SliceV) else None)
            if segs_ is not None:
                c_ = cmp('eq', seqlen(segs_), C(n_))
                arr = SeqV('u8', segs_)
                pay = RefV(Cell(arr)) if ('Result<&' in ty) else arr
                if c_ == TRUE: return EnumV('core::result::Result', 'Ok', {'0': pay}, ty=ty)
                if c_ == FALSE: return EnumV('core::result::Result', 'Err', {}, ty=ty)
                ev = EnumV('core::result::Result', None, sym=('a', I.fresh_name('try_from')), ty=ty)
                # on the Ok path the source has exactly N bytes
                if len(segs_) == 1 and segs_[0][0] == 'raw': arr = SeqV('u8', [('raw', segs_[0][1], C(n_))]); pay = RefV(Cell(arr)) if ('Result<&' in ty) else arr
                ev.payload_cache[('Ok', '0')] = pay; ev.some_cond = c_; ev.ok_variant = 'Ok'
                return ev
        return I.top('array try_from of %r' % (a0,), e)
    if n in ('core::slice::<impl [[T; N]]>::as_flattened', 'core::slice::<impl [[T; N]]>::as_flattened_mut'):
        m_ = re.match(r'^\[u8; (\d+)\]$', a0.elem) if isinstance(a0, SeqV) else None
        if m_ and not a0.stores:
            n_ = int(m_.group(1)); out = []
            for sg in a0.segs:
                if sg[0] == 'sym':
                    nm_ = show(sg[1]) + '[i]'
                    out.append(('rep', ('len', sg[1]), nm_, (('raw', ('a', nm_), C(n_)),)))
                elif sg[0] == 'elem' and isinstance(sg[1], SeqV) and sg[1].is_bytes():
                    fl = flatten_stores(sg[1])
                    if fl is None: return I.top('as_flattened over a stored-to element', e)
                    out.extend(fl)
                elif sg[0] == 'fill' and isinstance(sg[2], SeqV) and sg[2].is_bytes() and not sg[2].stores:
                    out.append(('rep', sg[1], None, tuple(sg[2].segs)))
                else: return I.top('as_flattened over segment %s' % sg[0], e)
            return RefV(Cell(SeqV('u8', norm_segs(out))))
        return I.top('as_flattened of %r' % (a0,), e)
    if n == 'core::ops::RangeInclusive::<Idx>::new':
        if is_term(args[0]) and is_term(args[1]): return RangeV(args[0], add(args[1], ONE))
        return I.top('inclusive range', e)
    if n.endswith('as core::iter::Iterator>::chain') or n == 'core::iter::Iterator::chain':
        b0 = deref(args[1])
        if isinstance(b0, SeqV): b0 = IterV(b0, isinstance(args[1], RefV))
        if isinstance(a0, IterV) and isinstance(b0, IterV) and not a0.maps and not b0.maps and a0.by_ref == b0.by_ref and a0.kind == b0.kind == 'slice':
            sa, sb = deref(a0.seq), deref(b0.seq)
            if isinstance(sa, SliceV): r_ = I.slice_segs(sa); sa = SeqV(sa.seq.elem, r_) if r_ is not None else None
            if isinstance(sb, SliceV): r_ = I.slice_segs(sb); sb = SeqV(sb.seq.elem, r_) if r_ is not None else None
            if isinstance(sa, SeqV) and isinstance(sb, SeqV) and sa.elem == sb.elem and not sa.stores and not sb.stores:
                return IterV(SeqV(sa.elem, list(sa.segs) + list(sb.segs)), a0.by_ref, 'slice')
        if isinstance(a0, IterV) and isinstance(b0, IterV):
            r_ = IterV(None, False, kind='chain'); r_.parts = (a0, b0); return r_
        return I.top('chain of %r and %r' % (a0, b0), e)
    if n.endswith('as core::iter::Iterator>::enumerate') or n == 'core::iter::Iterator::enumerate':
        if isinstance(a0, IterV): return _iter_clone(a0, maps=a0.maps + ['enumerate'])
        return I.top('enumerate over %r' % (a0,), e)
    if n.endswith('as core::iter::Iterator>::copied') or n.endswith('as core::iter::Iterator>::cloned') or n in ('core::iter::Iterator::copied', 'core::iter::Iterator::cloned'):
        if isinstance(a0, IterV):
            if a0.kind in ('chain', 'flat_map', 'zip'): return a0       # (elements of composite iterators are dereferenced where they are used)
            return _iter_clone(a0, by_ref=False)
    if n.endswith('as core::iter::Iterator>::sum') or n == 'core::iter::Iterator::sum':
        acc = Cell(ZERO); key_ = '$sum%d' % id(acc)
        I.frame().vars[key_] = acc
        def step(el):
            v = deref(el); c_ = I.frame().vars[key_]
            c_.v = add(c_.v, v) if is_term(v) and is_term(c_.v) else I.top('sum of non-scalars', e)
        I.iterate(args[0], step, e)
        r_ = I.frame().vars.pop(key_)
        return r_.v
    if (n.endswith('>::extend') and 'core::iter::Extend' in n) or n == 'core::iter::Extend::extend':
        # vec.extend(iterator): one push per element, in order
        out = a0
        if not isinstance(out, SeqV): return I.top('extend of %r' % (out,), e)
        src_ = deref(args[1])
        if isinstance(src_, SeqV) and not isinstance(args[1], RefV) and src_.elem == out.elem and not src_.stores and not out.stores:
            out.segs.extend(src_.segs); I.log.append(('mutate', n, e.get('sp'), _tgt(a0))); return UNIT     # extend(vec) / extend([a, b])
        it_ = deref(args[1]); rg_ = it_.seq if isinstance(it_, IterV) and isinstance(it_.seq, RangeV) else it_
        def run_(out):
            def step(el):
                v = el
                if out.is_bytes() or int_bits(out.elem):
                    v = deref(el)
                    if not is_term(v):
                        I.top('extend of Vec<%s> by a non-scalar' % out.elem, e); return
                elif isinstance(v, RefV) and not out.elem.startswith('&'): v = deref(v)
                out.segs.append(('int', v, 1) if out.is_bytes() else ('elem', v))
            src_it = args[1]
            if isinstance(rg_, RangeV) and rg_.hi is not None and is_term(rg_.lo) and is_term(rg_.hi):
                r2 = RangeV(rebuild(rg_.lo, lambda x: None), rebuild(rg_.hi, lambda x: None))     # (folds under this case's facts)
                src_it = r2 if rg_ is it_ else IterV(r2, it_.by_ref, it_.kind, it_.maps, it_.enum)
            I.iterate(src_it, step, e)
            return UNIT
        # a range whose length was chosen earlier among constants is split by cases here, with the vector carried into
        # each case's copy of the state (the step function holds the vector itself)
        it_ = deref(args[1]); rg_ = it_.seq if isinstance(it_, IterV) and isinstance(it_.seq, RangeV) else it_
        def split_(out, depth=0):
            if isinstance(rg_, RangeV) and rg_.hi is not None and is_term(rg_.lo) and is_term(rg_.hi) and depth < 6:
                n_ = rebuild(sub(rg_.hi, rg_.lo), lambda x: None)
                if n_[0] != 'c' and any(u[0] == 'ite' for u in sym.subterms(n_)):
                    cs = sorted((x for x in sym.cond_atoms(n_) if not any(u[0] == 'ite' for u in sym.subterms(x))), key=sym.key)
                    if cs: return I.branch([(cs[0], lambda o_: split_(o_, depth + 1)), (TRUE, lambda o_: split_(o_, depth + 1))], carry=[out])
            return run_(out)
        I._range_splits = getattr(I, '_range_splits', 0) + 6      # (the iteration below must not split again on its own)
        try:
            split_(out)
        finally:
            I._range_splits -= 6
        I.log.append(('mutate', n, e.get('sp'), _tgt(a0)))
        return UNIT
    if n in ('alloc::vec::Vec::<T, A>::reserve', 'alloc::vec::Vec::<T, A>::reserve_exact', 'alloc::vec::Vec::<T, A>::shrink_to_fit'):
        return UNIT
    if n in ('core::option::Option::<T>::ok_or', 'core::option::Option::<T>::ok_or_else') and isinstance(a0, EnumV):
        if a0.variant == 'Some': return EnumV('core::result::Result', 'Ok', {'0': a0.fields['0']}, ty=ty)
        if a0.variant == 'None': return EnumV('core::result::Result', 'Err', {'0': args[1]}, ty=ty)
        ev = EnumV('core::result::Result', None, sym=('a', I.fresh_name('ok_or')), ty=ty)
        ev.payload_cache[('Ok', '0')] = I.enum_payload(a0, 'Some', '0')
        ev.some_cond = getattr(a0, 'some_cond', None) or ('isvar', a0.sym, 'Some'); ev.ok_variant = 'Ok'
        return ev
    if n == 'core::result::Result::<T, E>::ok' and isinstance(a0, EnumV):
        if a0.variant == 'Ok': return opt_some(a0.fields['0'], ty)
        if a0.variant == 'Err': return opt_none(ty)
        ev = EnumV('core::option::Option', None, sym=('a', I.fresh_name('ok')), ty=ty)
        ev.payload_cache[('Some', '0')] = I.enum_payload(a0, 'Ok', '0')
        ev.some_cond = getattr(a0, 'some_cond', None) or ('isvar', a0.sym, 'Ok')
        return ev
    if n in ('core::result::Result::<T, E>::is_ok', 'core::result::Result::<T, E>::is_err') and isinstance(a0, EnumV):
        c_ = TRUE if a0.variant == 'Ok' else FALSE if a0.variant == 'Err' else (getattr(a0, 'some_cond', None) or ('isvar', a0.sym, 'Ok'))
        return c_ if n.endswith('is_ok') else bnot(c_)
    if n in ('core::bool::<impl bool>::then_some', 'core::bool::<impl bool>::then') and is_term(a0):
        c_ = sym.as_cond(a0)
        if c_ == FALSE: return opt_none(ty)
        v_ = args[1] if n.endswith('then_some') else None
        if c_ == TRUE: return opt_some(v_ if v_ is not None else I.call_closure(args[1], [], e), ty)
        if v_ is None: return I.top('bool::then with an undecided condition', e)
        ev = EnumV('core::option::Option', None, sym=('a', I.fresh_name('then_some')), ty=ty)
        ev.payload_cache[('Some', '0')] = v_; ev.some_cond = c_
        return ev
    if n in ('core::option::Option::<T>::map', 'core::option::Option::<T>::and_then') and isinstance(a0, EnumV):
        if a0.variant == 'None': return opt_none(ty)
        if a0.variant == 'Some':
            r_ = I.call_closure(args[1], [a0.fields['0']], e)
            return opt_some(r_, ty) if n.endswith('::map') else r_
        if n.endswith('::map'):
            ev = EnumV('core::option::Option', None, sym=('a', I.fresh_name('map')), ty=ty)
            c_ = getattr(a0, 'some_cond', None) or ('isvar', a0.sym, 'Some')
            # the closure is evaluated on the payload under the condition that there is one
            v_ = _under(I, c_, lambda: I.call_closure(args[1], [I.enum_payload(a0, 'Some', '0')], e), e)
            if isinstance(v_, Top): return I.top('Option::map with an unevaluable closure', e)
            ev.payload_cache[('Some', '0')] = v_; ev.some_cond = c_
            return ev
        # and_then on a symbolic option: Some exactly when there is a payload and the closure yields Some of it
        c_ = getattr(a0, 'some_cond', None) or ('isvar', a0.sym, 'Some')
        r_ = _under(I, c_, lambda: I.call_closure(args[1], [I.enum_payload(a0, 'Some', '0')], e), e)
        if isinstance(r_, EnumV) and r_.path == 'core::option::Option':
            if r_.variant == 'None': return opt_none(ty)
            ev = EnumV('core::option::Option', None, sym=('a', I.fresh_name('and_then')), ty=ty)
            if r_.variant == 'Some':
                ev.some_cond = c_; ev.payload_cache[('Some', '0')] = r_.fields['0']
            else:
                ev.some_cond = b_and(c_, getattr(r_, 'some_cond', None) or ('isvar', r_.sym, 'Some'))
                ev.payload_cache[('Some', '0')] = I.enum_payload(r_, 'Some', '0')
            return ev
        return I.top('Option::and_then on a symbolic option', e)
    if (n.endswith('as core::iter::Iterator>::any') or n.endswith('as core::iter::Iterator>::all') or n in ('core::iter::Iterator::any', 'core::iter::Iterator::all')):
        is_any = n.endswith('any')
        acc = Cell(FALSE if is_any else TRUE); key_ = '$anyall%d' % id(acc)
        itv_ = deref(args[0])
        sq_ = deref(itv_.seq) if isinstance(itv_, IterV) else None
        if isinstance(sq_, SeqV) and any(sg[0] not in ('elem', 'int') or (sg[0] == 'int' and sg[2] != 1) for sg in (norm_segs(sq_.segs) if sq_.is_bytes() else sq_.segs)):
            return I.top('any/all over a sequence of unknown length', e)
        I.frame().vars[key_] = acc
        def step(el):
            r_ = I.call_closure(args[1], [el], e); c_ = I.frame().vars[key_]
            if not is_term(r_) or not is_term(c_.v): c_.v = I.top('any/all with a non-boolean predicate', e); return
            c_.v = b_or(c_.v, sym.as_cond(r_)) if is_any else b_and(c_.v, sym.as_cond(r_))
        I.iterate(args[0], step, e)
        r2_ = I.frame().vars.pop(key_)
        return r2_.v
    if n in ('core::slice::<impl [T]>::chunks_exact', 'core::slice::<impl [T]>::chunks', 'core::slice::<impl [T]>::chunks_exact_mut', 'core::slice::<impl [T]>::chunks_mut') and is_term(args[1]) and args[1][0] == 'c' and args[1][1] > 0:
        sq_ = a0; k_ = args[1][1]
        base_sq = sq_.seq if isinstance(sq_, SliceV) else sq_
        if isinstance(base_sq, SeqV):
            lo_ = sq_.lo if isinstance(sq_, SliceV) else ZERO
            hi_ = (sq_.hi if sq_.hi is not None else seqlen(base_sq.segs)) if isinstance(sq_, SliceV) else seqlen(base_sq.segs)
            if is_term(lo_) and is_term(hi_) and lo_[0] == 'c' and hi_[0] == 'c' and (hi_[1] - lo_[1]) // k_ <= 64:
                total_ = hi_[1] - lo_[1]
                cnt_ = total_ // k_ if 'chunks_exact' in n else -(-total_ // k_)
                els_ = [('elem', RefV(Cell(SliceV(base_sq, C(lo_[1] + i_ * k_), C(min(lo_[1] + (i_ + 1) * k_, hi_[1])))))) for i_ in range(cnt_)]
                return IterV(SeqV('&[%s]' % base_sq.elem, els_), False)
        return I.top('chunks of a sequence whose length is not a constant', e)
    if (n.endswith('as core::iter::Iterator>::find') or n.endswith('as core::iter::Iterator>::position') or n in ('core::iter::Iterator::find', 'core::iter::Iterator::position')) and isinstance(deref(args[0]), IterV):
        # over finitely many known elements: the first one whose predicate holds
        it_ = deref(args[0]); els_ = []
        def collect_(x): els_.append(x)
        n_t = len(I.tops)
        sq_ = deref(it_.seq) if it_.seq is not None else None
        finite = (it_.kind == 'zip') or (it_.kind == 'slice' and isinstance(sq_, SeqV) and not sq_.stores and
                                       all(sg[0] == 'elem' or (sg[0] == 'int' and sg[2] == 1) for sg in (norm_segs(sq_.segs) if sq_.is_bytes() else sq_.segs)))
        if finite: I.iterate(it_, collect_, e)
        if finite and len(I.tops) == n_t and len(els_) <= 16:
            is_find = n.endswith('find')
            vals_ = []
            for k_, x in enumerate(els_):
                c_ = I.call_closure(args[1], [RefV(Cell(x))] if is_find else [x], e)
                if not is_term(c_): vals_ = None; break
                vals_.append((sym.as_cond(c_), x if is_find else C(k_)))
            if vals_ is not None:
                some_ = FALSE
                for c_, _ in vals_: some_ = b_or(some_, c_)
                if some_ == FALSE: return opt_none(ty)
                # (references to scalars inside the candidates are joined by value and wrapped again)
                shape_ = [isinstance(y, RefV) and is_term(deref(y)) for y in vals_[0][1].items] if isinstance(vals_[0][1], TupleV) else None
                if shape_ is not None and all(isinstance(v_, TupleV) and len(v_.items) == len(shape_) for _, v_ in vals_):
                    vals_ = [(c_, TupleV([deref(y) if r else y for y, r in zip(v_.items, shape_)])) for c_, v_ in vals_]
                else: shape_ = None
                if not hasattr(I, '_join'): I.branch([(('a', I.fresh_name('init')), lambda: UNIT), (TRUE, lambda: UNIT)])     # (defines the join)
                pay = I._join([(c_, v_) for c_, v_ in vals_[:-1]] + [(TRUE, vals_[-1][1])]) if len(vals_) > 1 else vals_[0][1]
                if shape_ is not None and isinstance(pay, TupleV): pay = TupleV([RefV(Cell(y)) if r else y for y, r in zip(pay.items, shape_)])
                if not isinstance(pay, Top):
                    if some_ == TRUE: return opt_some(pay, ty)
                    ev = EnumV('core::option::Option', None, sym=('a', I.fresh_name('find')), ty=ty)
                    ev.some_cond = some_; ev.payload_cache[('Some', '0')] = pay
                    return ev
        del I.tops[n_t:]
        return I.top('find/position over a sequence that is not a short list of known values', e)
    if n in ('core::slice::from_ref', 'core::slice::from_mut', 'core::array::from_ref'):
        # a one-element slice over a value
        ety = norm_ty(I.resolve_ty((e.get('generics') or ['?'])[0]))
        v_ = a0
        if int_bits(ety) == 8 and is_term(v_): return RefV(Cell(SeqV('u8', [('int', v_, 1)])))
        return RefV(Cell(SeqV(ety, [('elem', v_)])))
    if n == 'core::str::<impl str>::bytes' and isinstance(a0, (SeqV, SliceV)):
        return IterV(a0, False)
    if n.endswith('as core::iter::Iterator>::flat_map') or n == 'core::iter::Iterator::flat_map':
        if isinstance(a0, IterV):
            r_ = IterV(None, False, kind='flat_map'); r_.inner = a0; r_.fn = args[1]; return r_
        return I.top('flat_map over %r' % (a0,), e)
    if n == 'core::iter::repeat':
        r_ = IterV(None, False, kind='repeat'); r_.value = args[0]; return r_
    if (n.endswith('as core::iter::Iterator>::take') or n == 'core::iter::Iterator::take') and isinstance(a0, IterV) and a0.kind == 'repeat' and is_term(args[1]):
        v_ = a0.value
        if is_term(v_) and int_bits(norm_ty(I.resolve_ty((e.get('generics') or ['?'])[0]))) == 8 or (is_term(v_) and 'Repeat<u8>' in norm_ty(I.resolve_ty(e['args'][0].get('ty', '')))):
            return IterV(SeqV('u8', [('rep', args[1], None, (('int', v_, 1),))]), False)
        if args[1][0] == 'c' and args[1][1] <= 64:
            return IterV(SeqV('?', [('elem', fcopy(v_)) for _ in range(args[1][1])]), False)
        return I.top('repeat(..).take(n) of a non-byte value with a symbolic count', e)
    mc_ = re.match(r'^core::char::methods::<impl char>::(is_ascii_hexdigit|is_ascii_digit|is_ascii_uppercase|is_ascii_lowercase|is_ascii_alphabetic|is_ascii_alphanumeric)$', n) or \
          re.match(r'^core::num::<impl u8>::(is_ascii_hexdigit|is_ascii_digit|is_ascii_uppercase|is_ascii_lowercase|is_ascii_alphabetic|is_ascii_alphanumeric)$', n)
    if mc_ and is_term(a0):
        def in_(lo_, hi_): return b_and(cmp('le', C(lo_), a0), cmp('le', a0, C(hi_)))
        dg, up, lw = in_(48, 57), in_(65, 90), in_(97, 122)
        return {'is_ascii_hexdigit': b_or(dg, b_or(in_(65, 70), in_(97, 102))), 'is_ascii_digit': dg, 'is_ascii_uppercase': up, 'is_ascii_lowercase': lw,
                'is_ascii_alphabetic': b_or(up, lw), 'is_ascii_alphanumeric': b_or(dg, b_or(up, lw))}[mc_.group(1)]
    if n.endswith('as core::iter::Iterator>::collect') or n == 'core::iter::Iterator::collect':
        base_, ga_ = split_generics(ty)
        if base_ == 'alloc::vec::Vec' and ga_ and isinstance(deref(args[0]), IterV):
            out = SeqV(ga_[0], [])
            cell = Cell(out); key_ = '$collect%d' % id(cell)
            I.frame().vars[key_] = cell
            def step(el):
                v = el; out_ = I.frame().vars[key_].v
                if out_.is_bytes() or int_bits(out_.elem):
                    v = deref(el)
                    if not is_term(v):
                        I.top('collect of non-scalar into Vec<%s>' % out_.elem, e); return
                out_.segs.append(('int', v, 1) if out_.is_bytes() else ('elem', v))
            I.iterate(args[0], step, e)
            r_ = I.frame().vars.pop(key_)
            I.log.append(('mutate', n, e.get('sp'), _tgt(a0)))
            return r_.v
        return I.top('collect into %s' % ty, e)
    if n in ('core::slice::<impl [T]>::to_vec', 'alloc::slice::<impl [T]>::to_vec', 'alloc::slice::<impl [T]>::to_vec_in'):
        if isinstance(a0, SeqV) and not a0.stores: return fcopy(a0)
        if isinstance(a0, SliceV):
            r = I.slice_segs(a0)
            if r is not None: return SeqV(a0.seq.elem, list(r))
        return I.top('to_vec of %r' % (a0,), e)
    if re.match(r'^core::num::<impl (u8|u16|u32|u64|usize)>::(leading_zeros|ilog2)$', n):
        # bit length of the operand: leading_zeros(x) = BITS - bitlen(x);  ilog2(x) = bitlen(x) - 1
        bits = int_bits(re.match(r'^core::num::<impl (\w+)>', n).group(1))
        # (the operand is measured as the mathematical value: an addition that wraps before it is C18's overflow site)
        bl = ('call', 'bitlen', a0); sym.CALL_RANGE[bl] = (0, 64)
        return sub(C(bits), bl) if n.endswith('leading_zeros') else sub(bl, ONE)
    if re.match(r'^core::num::<impl (u8|u16|u32|u64|usize)>::next_power_of_two$', n) and is_term(a0):
        # smallest power of two >= x (an overflow panics in debug builds and is a refusal the callers' ranges exclude here)
        if a0[0] == 'c': return C(sym._npow2(a0[1]))
        return ('call', 'npow2', a0)
    if n in ('core::cmp::Ord::max', 'core::cmp::Ord::min', 'core::cmp::max', 'core::cmp::min') or re.match(r'^core::cmp::impls::<impl core::cmp::Ord for \w+>::(max|min)$', n):
        a, b = a0, deref(args[1])
        if is_term(a) and is_term(b):
            c = cmp('le', a, b)
            return ite(c, b, a) if n.endswith('max') else ite(c, a, b)
        return I.top('max/min of non-scalars', e)
    if n in ('core::str::<impl str>::is_empty', 'core::slice::<impl [T]>::is_empty', 'alloc::string::String::is_empty'):
        if isinstance(a0, SeqV): return cmp('eq', seqlen(a0.segs), ZERO)
        if isinstance(a0, SliceV): return cmp('eq', sub(a0.hi, a0.lo), ZERO)
    if n == 'alloc::vec::Vec::<T, A>::insert':
        s, idx, v = a0, args[1], args[2]
        if isinstance(s, SeqV) and is_term(idx) and idx[0] == 'c' and not s.stores:
            pos = 0
            for k_, sg in enumerate(s.segs):
                if pos == idx[1]:
                    s.segs.insert(k_, ('int', v, 1) if s.is_bytes() else ('elem', v)); I.log.append(('mutate', n, e.get('sp'), _tgt(a0))); return UNIT
                l = seglen(sg)
                if l[0] != 'c': break
                pos += l[1]
            if pos == idx[1] and all(seglen(x)[0] == 'c' for x in s.segs):
                s.segs.append(('int', v, 1) if s.is_bytes() else ('elem', v)); I.log.append(('mutate', n, e.get('sp'), _tgt(a0))); return UNIT
        return I.top('Vec::insert at a position that is not a constant segment boundary', e)
    if n.endswith('as core::iter::Iterator>::count') or n == 'core::iter::Iterator::count':
        if isinstance(a0, IterV): return seqlen(a0.seq.segs) if isinstance(a0.seq, SeqV) else I.top('count', e)
    if n.endswith('as core::iter::Iterator>::rev') or n == 'core::iter::Iterator::rev' or n.endswith('core::iter::DoubleEndedIterator>::rev'):
        if isinstance(a0, IterV) and isinstance(a0.seq, SeqV):
            sq = a0.seq
            rs = SeqV(sq.elem, [], name=sq.name)
            for sg in reversed(sq.segs):
                if sg[0] in ('elem', 'fill') or (sg[0] == 'int' and sg[2] == 1): rs.segs.append(sg)
                elif sg[0] == 'sym': rs.segs.append(('sym', ('call', 'reversed', sg[1])))
                else: return I.top('reverse iteration over %s' % sg[0], e)
            return IterV(rs, a0.by_ref, a0.kind)
        return I.top('rev', e)

    # ---------------- TryFrom between integers / Result
    mm = re.match(r'^core::convert::num::(?:ptr_try_from_impls::)?<impl core::convert::TryFrom<(\w+)> for (\w+)>::try_from$', n)
    if mm:
        tb = int_bits(mm.group(2))
        if not is_term(a0) or tb is None: return I.top('try_from', e)
        c = b_and(cmp('le', ZERO, a0), cmp('le', a0, C((1 << tb) - 1)))
        if c == TRUE: return EnumV('core::result::Result', 'Ok', {'0': a0}, ty=ty)
        ev = EnumV('core::result::Result', None, sym=('a', I.fresh_name('try_from')), ty=ty)
        ev.payload_cache[('Ok', '0')] = a0
        ev.some_cond = cmp('le', a0, C((1 << tb) - 1)) if rng(a0)[0] >= 0 else c
        ev.ok_variant = 'Ok'
        return ev
    if n in ('core::result::Result::<T, E>::unwrap', 'core::result::Result::<T, E>::expect'):
        if not isinstance(a0, EnumV): return I.top('unwrap of %r' % (a0,), e)
        if a0.variant == 'Ok': return a0.fields['0']
        if a0.variant == 'Err':
            I.st.dead = True; return UNIT
        c = getattr(a0, 'some_cond', None) or ('isvar', a0.sym, 'Ok')
        I.guards.append({'cond': c, 'sp': e.get('sp'), 'kind': 'unwrap'})
        I.log.append(('guard', c, e.get('sp')))
        def bad():
            I.st.dead = True; return UNIT
        return I.branch([(c, lambda o_: I.enum_payload(o_, 'Ok', '0')), (TRUE, lambda o_: bad())], carry=[a0])

    # ---------------- Option
    if n in ('core::option::Option::<T>::as_deref', 'core::option::Option::<T>::as_deref_mut', 'core::option::Option::<T>::as_mut', 'core::option::Option::<&T>::copied', 'core::option::Option::<&T>::cloned'):
        if isinstance(a0, EnumV): return a0
        return I.top('Option adaptor on %r' % (a0,), e)
    if n in ('core::slice::<impl [T]>::get', 'core::slice::<impl [T]>::get_mut'):
        idx = args[1]
        if isinstance(a0, SeqV) and isinstance(idx, RangeV) and is_term(idx.lo):
            total_ = seqlen(a0.segs); hi_ = idx.hi if idx.hi is not None else total_
            c_ = b_and(cmp('le', idx.lo, hi_), cmp('le', hi_, total_))
            sl = RefV(Cell(SliceV(a0, idx.lo, hi_)))
            if c_ == TRUE: return opt_some(sl)
            if c_ == FALSE: return opt_none()
            ev = EnumV('core::option::Option', None, sym=('a', I.fresh_name('get')), ty=ty)
            ev.payload_cache[('Some', '0')] = sl; ev.some_cond = c_
            return ev
        if isinstance(a0, SeqV) and is_term(idx):
            c_ = cmp('lt', idx, seqlen(a0.segs))
            el = RefV(IndexPlace(I, a0, idx))
            if c_ == TRUE: return opt_some(el)
            if c_ == FALSE: return opt_none()
            ev = EnumV('core::option::Option', None, sym=('a', I.fresh_name('get')), ty=ty)
            ev.payload_cache[('Some', '0')] = el; ev.some_cond = c_
            return ev
        return I.top('slice::get of %r by %r' % (a0, idx), e)
    if n == 'core::iter::once':
        ety_ = norm_ty(I.resolve_ty((e.get('generics') or ['?'])[0]))
        if ety_ == 'u8' and is_term(args[0]): return IterV(SeqV('u8', [('int', args[0], 1)]), False)
        return IterV(SeqV(ety_, [('elem', args[0])]), False)
    if n == 'core::option::Option::<T>::as_ref':
        if isinstance(a0, EnumV): return a0
        return I.top('as_ref', e)
    if n in ('core::option::Option::<T>::is_some', 'core::option::Option::<T>::is_none'):
        c = I.matches({'k': 'Variant', 'variant': 'Some', 'subs': []}, a0)
        return c if n.endswith('is_some') else bnot(c)
    if n == 'core::option::Option::<T>::unwrap_or_default':
        _, ga_ = split_generics(norm_ty(I.resolve_ty(e['args'][0].get('ty', ''))) if e.get('args') else '')
        dv = default_value(I, norm_ty(I.resolve_ty(ty)), e)
        if isinstance(dv, Top): return dv
        return opt_match(I, a0, lambda p: p, lambda: dv, e)
    if n in ('core::cmp::PartialOrd::le', 'core::cmp::PartialOrd::lt', 'core::cmp::PartialOrd::ge', 'core::cmp::PartialOrd::gt', 'core::cmp::PartialEq::eq', 'core::cmp::PartialEq::ne') \
       or re.match(r'^core::cmp::impls::<impl core::cmp::Partial(Ord|Eq) for \w+>::(le|lt|ge|gt|eq|ne)$', n):
        b_ = deref(args[1])
        if is_term(a0) and is_term(b_): return cmp(n.rsplit('::', 1)[1], a0, b_)
        return I.top('comparison of non-scalars through PartialOrd/PartialEq', e)
    if n == 'core::str::<impl str>::strip_prefix' and isinstance(a0, SeqV) and is_term(args[1]):
        # Some(rest) exactly when the string starts with the pattern character; rest = s[1..]
        c_ = cmp('ne', ('call', 'starts_with', ('a', a0.name or '?'), args[1]), ZERO)
        ev = EnumV('core::option::Option', None, sym=('a', I.fresh_name('strip_prefix')), ty=ty)
        ev.payload_cache[('Some', '0')] = RefV(Cell(SliceV(a0, ONE, seqlen(a0.segs)))); ev.some_cond = c_
        return ev
    if n == 'core::option::Option::<T>::unwrap_or':
        if isinstance(args[1], RefV):
            # Option<&T>: payload and default are both references (the payload of a symbolic option is held by value)
            return opt_match(I, a0, lambda p: p if isinstance(p, RefV) else RefV(Cell(p)), lambda: args[1], e)
        return opt_match(I, a0, lambda p: p, lambda: args[1], e)
    if n in ('core::option::Option::<T>::unwrap_or_else', 'core::result::Result::<T, E>::unwrap_or_else') and isinstance(a0, EnumV):
        # `x.unwrap_or_else(|| panic!(..))` is `x.expect(..)`: a closure that diverges makes this a refusal
        is_res = n.startswith('core::result')
        okv = 'Ok' if is_res else 'Some'
        def other():
            return I.call_closure(args[1], [UNIT] if is_res else [], e)
        if a0.variant == okv: return a0.fields['0']
        c_ = getattr(a0, 'some_cond', None) or ('isvar', a0.sym, okv)
        cl_ = args[1]
        body_ = I.f.bodies.get(getattr(cl_, 'd', None), {}).get('body') if isinstance(cl_, ClosureV) else None
        if a0.variant is None and body_ is not None and I._diverges(body_):
            I.guards.append({'cond': c_, 'sp': e.get('sp'), 'kind': 'unwrap'})
            I.log.append(('guard', c_, e.get('sp')))
        if a0.variant is not None: return other()
        return I.branch([(c_, lambda: I.enum_payload(a0, okv, '0')), (TRUE, other)])
    if n == 'core::option::Option::<T>::map_or':
        return opt_match(I, a0, lambda p: I.call_closure(args[2], [p], e), lambda: args[1], e)
    if n in ('core::option::Option::<T>::unwrap', 'core::option::Option::<T>::expect'):
        def none():
            I.st.dead = True; return UNIT
        I.guards.append({'cond': getattr(a0, 'some_cond', None) or I.matches({'k': 'Variant', 'variant': 'Some', 'subs': []}, a0), 'sp': e.get('sp'), 'kind': 'unwrap'})
        return opt_match(I, a0, lambda p: p, none, e)

    # ---------------- integers
    m = re.match(r'^core::num::<impl (u8|u16|u32|u64|usize)>::(\w+)$', n)
    if m:
        bits = int_bits(m.group(1)); op = m.group(2)
        if op in ('wrapping_add', 'wrapping_sub') and not (is_term(a0) and is_term(args[1])): return I.top(op + ' of non-scalars', e)
        if op == 'wrapping_add': return wrap(add(a0, args[1]), 1 << bits)
        if op == 'wrapping_sub': return wrap(sub(a0, args[1]), 1 << bits)
        if op == 'wrapping_neg' and is_term(a0): return wrap(neg(a0), 1 << bits)
        if op == 'wrapping_mul' and is_term(a0) and is_term(args[1]): return wrap(mul(a0, args[1]), 1 << bits)
        if op in ('saturating_sub',) and is_term(a0) and is_term(args[1]): return ite(cmp('le', args[1], a0), sub(a0, args[1]), ZERO)
        if op in ('saturating_add',) and is_term(a0) and is_term(args[1]):
            r_ = add(a0, args[1]); return ite(cmp('le', r_, C((1 << bits) - 1)), r_, C((1 << bits) - 1))
        if op in ('from_le_bytes',) and isinstance(a0, SeqV) and a0.is_bytes() and not a0.stores:
            sg = norm_segs(a0.segs)
            if len(sg) == 1 and sg[0][0] == 'int' and sg[0][2] == bits // 8: return sg[0][1]
            return I.top('from_le_bytes of %r' % (a0,), e)
        if op == 'to_le_bytes': return SeqV('u8', [('int', a0, bits // 8)])
        if op == 'to_be_bytes': return I.top('big-endian bytes', e)
        if op == 'pow':
            if a0[0] == 'c' and args[1][0] == 'c': return C(a0[1] ** args[1][1])
            return I.top('pow', e)
        if op == 'swap_bytes': return ('call', 'swap_bytes%d' % bits, a0)
        if op == 'div_ceil' and is_term(a0) and is_term(args[1]) and args[1][0] == 'c' and args[1][1] > 0:
            return div(add(a0, C(args[1][1] - 1)), args[1]) if a0[0] != 'c' else C(-(-a0[1] // args[1][1]))
        if op == 'next_multiple_of' and is_term(a0) and is_term(args[1]) and args[1][0] == 'c' and args[1][1] > 0:
            return mul(div(add(a0, C(args[1][1] - 1)), args[1]), args[1]) if a0[0] != 'c' else C(-(-a0[1] // args[1][1]) * args[1][1])
        if op == 'abs_diff' and is_term(a0) and is_term(args[1]):
            return ite(cmp('le', args[1], a0), sub(a0, args[1]), sub(args[1], a0))
        if op == 'checked_sub':
            c = cmp('le', args[1], a0)
            r = sub(a0, args[1])
            if c == TRUE: return opt_some(r)
            ev = EnumV('core::option::Option', None, sym=('a', I.fresh_name('checked_sub')), ty='core::option::Option<%s>' % m.group(1))
            ev.payload_cache[('Some', '0')] = r
            ev.some_cond = c
            return ev
        if op in ('checked_add', 'checked_mul'):
            r = add(a0, args[1]) if op == 'checked_add' else mul(a0, args[1])
            c = cmp('le', r, C((1 << bits) - 1))
            if c == TRUE: return opt_some(r)
            ev = EnumV('core::option::Option', None, sym=('a', I.fresh_name(op)), ty='core::option::Option<%s>' % m.group(1))
            ev.payload_cache[('Some', '0')] = r
            ev.some_cond = c
            return ev
    if n == 'core::char::methods::<impl char>::to_digit':
        c = a0; radix = args[1]
        if radix == C(16) and is_term(c):
            # interpreted: the digit's value under the condition that it is one (ASCII, either case)
            ev = EnumV('core::option::Option', None, sym=('a', I.fresh_name('to_digit')), ty='core::option::Option<u32>')
            ev.payload_cache[('Some', '0')] = sym.hexval(c)
            ev.some_cond = sym.hexcond(c)
            return ev
        t = ('call', 'to_digit', c, radix); sym.CALL_RANGE[t] = (0, 35)
        ev = EnumV('core::option::Option', None, sym=('a', I.fresh_name('to_digit')), ty='core::option::Option<u32>')
        ev.payload_cache[('Some', '0')] = t
        ev.some_cond = ('call', 'is_digit', c, radix)
        return ev

    # ---------------- zerocopy
    if n == 'zerocopy::IntoBytes::as_bytes':
        src_ty = e['generics'][0] if e.get('generics') else e['args'][0]['ty']
        segs = I.as_bytes(a0, src_ty, e)
        if isinstance(segs, Top): return segs
        return RefV(Cell(SeqV('u8', segs)))
    if n.startswith('core::fmt::'):
        return UNIT
    if n == '<T as core::cmp::PartialEq>::eq' or n.endswith('core::cmp::PartialEq>::eq'):
        return I.arith('Eq', args[0], args[1], None, e)
    return NotImplemented

def _under(I, cond, thunk, e):
    """value of thunk() evaluated in the current state under the assumption `cond` (for pure closures of Option/Result
    adaptors: the result is only used where cond holds).  A closure that mutates anything is not handled this way."""
    st = I.st
    saved_facts = list(st.facts); saved_ranges = dict(st.ranges); n_log = len(I.log)
    st.facts.append((cond, None)); sym.refine(cond, st.ranges); sym.CTX = st.ranges
    try:
        r = thunk()
    finally:
        st.facts[:] = saved_facts; st.ranges.clear(); st.ranges.update(saved_ranges); sym.CTX = st.ranges
    if any(ev[0] == 'mutate' for ev in I.log[n_log:]): return I.top('Option/Result adaptor with a closure that has effects', e)
    return r

def opt_match(I, ov, some_fn, none_fn, e):
    ov = deref(ov)
    if not isinstance(ov, EnumV): return I.top('option op on %r' % (ov,), e)
    if ov.variant == 'Some': return some_fn(ov.fields['0'])
    if ov.variant == 'None': return none_fn()
    c = getattr(ov, 'some_cond', None) or ('isvar', ov.sym, 'Some')
    # (the payload may be a place - `get_mut(a..b)` - : each branch works on its own copy of the state, so the option is
    # carried into the branch and its payload taken there)
    return I.branch([(c, lambda o_: some_fn(I.enum_payload(o_, 'Some', '0'))), (TRUE, lambda o_: none_fn())], carry=[ov])

def default_value(I, ty, e=None):
    ty = norm_ty(ty)
    if int_bits(ty): return ZERO
    if ty == 'bool': return FALSE
    m = re.match(r'^\[(.*); (\d+)\]$', ty)
    if m:
        if m.group(1) == 'u8': return SeqV('u8', [('int', ZERO, 1)] * int(m.group(2))) if int(m.group(2)) <= 64 else SeqV('u8', [('rep', C(int(m.group(2))), None, (('int', ZERO, 1),))])
        return SeqV(m.group(1), [('elem', default_value(I, m.group(1), e)) for _ in range(int(m.group(2)))])
    base, args = split_generics(ty)
    if base == 'alloc::vec::Vec': return SeqV(args[0], [])
    if base == 'alloc::string::String': return SeqV('u8', [])
    if base == 'core::option::Option': return opt_none(ty)
    # user Default impl (hand-written) takes precedence
    d = I.f.method('core::default::Default', ty, 'default')
    if d and d in I.f.bodies and I.f.bodies[d].get('body') is not None:
        return I.call_local(d, [], e)
    return I.top('Default for ' + ty, e)
