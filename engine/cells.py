"""Interval partition + bit-slice analysis for the piecewise encoders (DESIGN 2.2).

The comparisons a function makes on its integer argument partition the argument's range into
finitely many intervals ("cells"); on each cell every comparison has a constant truth value, so the
emission shape collapses to a flat list of byte expressions, each of which is normalised to
`const | bits[a..b) of (arg + k)`.  This is a finite case analysis read off the code's own
comparisons - no input is ever run."""
from sym import *
import sym

def thresholds(terms, var):
    """values v such that some comparison in `terms` may change truth between v-1 and v"""
    out = set()
    for t in terms:
        for u in subterms(t):
            if u[0] == 'call' and u[1] == 'bitlen' and var in subterms(u[2]):
                # comparisons on the bit length change truth only at powers of two of the operand
                arg = u[2]
                while arg[0] == 'trunc': arg = arg[1]      # measured at the type's width: the wrap points are powers of two as well
                dd, c = to_lin(arg)
                if set(dd.keys()) == {var} and dd[var] == 1:
                    for k in range(0, 65): out.update([(1 << k) - c - 1, (1 << k) - c, (1 << k) - c + 1])
            if u[0] in ('eq', 'lt', 'le'):
                d = sub(u[1], u[2])
                dd, c = to_lin(d)
                if set(dd.keys()) == {var} and abs(dd[var]) == 1:
                    k = dd[var]
                    z = -c // k if (-c) % k == 0 else None     # var == z makes d == 0
                    if z is not None:
                        out.update([z - 1, z, z + 1])
    return out

def segs_terms(segs):
    out = []
    for s in segs:
        if s[0] == 'int': out.append(s[1])
        elif s[0] == 'cond':
            out.append(s[1]); out += segs_terms(s[2]); out += segs_terms(s[3])
        elif s[0] == 'rep':
            out.append(s[1]); out += segs_terms(s[3])
        elif s[0] == 'raw': out += [s[2]]
        elif s[0] == 'pkglen': out += [s[1], s[2]]
        elif s[0] == 'prefix': out.append(s[1]); out += segs_terms(s[2])
    return out

def make_cells(lo, hi, ths):
    pts = sorted({p for p in ths if lo < p <= hi} | {lo})
    cells = []
    for i, p in enumerate(pts):
        end = pts[i + 1] - 1 if i + 1 < len(pts) else hi
        cells.append((p, end))
    return cells

def in_cell(segs, var, lo, hi, extra=None):
    """flatten segs under var in [lo, hi]; returns (flat segs, unresolved conditions)"""
    saved = sym.CTX
    ranges = dict(extra or {}); ranges[var] = (lo, hi)
    sym.CTX = ranges
    unresolved = []
    try:
        def f(x):
            if x in ranges and x[0] != 'c':
                a, b = rng(x)
                if a == b: return C(a)
            return None
        def go(ss):
            out = []
            for s in ss:
                if s[0] == 'cond':
                    c = rebuild(rebuild(s[1], f), f)
                    if c == TRUE: out += go(s[2])
                    elif c == FALSE: out += go(s[3])
                    else:
                        unresolved.append(c); out.append(('cond', c, tuple(go(s[2])), tuple(go(s[3]))))
                elif s[0] == 'int':
                    out.append(('int', rebuild(rebuild(s[1], f), f), s[2]))
                elif s[0] == 'rep':
                    out.append(('rep', rebuild(s[1], f), s[2], tuple(go(s[3]))))
                elif s[0] == 'prefix':
                    # the first h bytes of a fixed-size buffer, h constant on this cell
                    h = rebuild(rebuild(s[1], f), f)
                    inner = go(list(s[2]))
                    if h[0] == 'c' and all(x[0] == 'int' for x in inner):
                        by = []
                        for x in inner:
                            if x[2] == 1: by.append(x)
                            elif x[1][0] == 'c': by.extend(('int', C((x[1][1] >> (8 * j)) & 0xff), 1) for j in range(x[2]))
                            else: by = None; break
                        if by is not None and 0 <= h[1] <= len(by): out.extend(by[:h[1]]); continue
                    unresolved.append(h); out.append(('prefix', h, tuple(inner)))
                else:
                    out.append(s)
            return out
        flat = go(segs)
    finally:
        sym.CTX = saved
    return flat, unresolved

# ---------------------------------------------------------------- bit slices

class NotSlices(Exception): pass

def bits_of(t, ranges):
    """normalise a byte-valued term to (const, [(source term, src_lo, width, dst_lo)]).
    Sources are arbitrary terms (typically arg + k); raises NotSlices when the shape is not
    an or/and/shift/truncate combination."""
    saved = sym.CTX; sym.CTX = ranges
    try:
        return _bits(t)
    finally:
        sym.CTX = saved

def _width(t):
    lo, hi = rng(t)
    if lo < 0 or hi >= sym.BIG: raise NotSlices('unbounded %s' % show(t))
    return max(hi.bit_length(), 1)

def _bits(t):
    k = t[0]
    if k == 'c': return t[1], []
    if k == 'or':
        c1, s1 = _bits(t[1]); c2, s2 = _bits(t[2])
        used = set()
        for (_, _, w, d) in s1 + s2:
            for b in range(d, d + w):
                if b in used: raise NotSlices('overlapping bit fields')
                used.add(b)
        for b in used:
            if ((c1 | c2) >> b) & 1: raise NotSlices('constant overlaps a field')
        return c1 | c2, s1 + s2
    if k == 'and' and t[2][0] == 'c' and (t[2][1] & (t[2][1] + 1)) == 0:
        w = t[2][1].bit_length()
        c, s = _bits(t[1])
        return c & t[2][1], [(src, lo, min(wd, w - d), d) for (src, lo, wd, d) in s if d < w]
    if k == 'and' and t[1][0] == 'c' and (t[1][1] & (t[1][1] + 1)) == 0:
        return _bits(('and', t[2], t[1]))
    if k == 'trunc':
        c, s = _bits(t[1])
        w = t[2]
        return c & ((1 << w) - 1), [(src, lo, min(wd, w - d), d) for (src, lo, wd, d) in s if d < w]
    if k == 'shr' and t[2][0] == 'c':
        sh = t[2][1]
        c, s = _bits(t[1])
        out = []
        for (src, lo, wd, d) in s:
            if d + wd <= sh: continue
            if d >= sh: out.append((src, lo, wd, d - sh))
            else: out.append((src, lo + (sh - d), wd - (sh - d), 0))
        return c >> sh, out
    if k == 'lin' and len(t[1]) == 1 and t[2] == 0 and t[1][0][1] > 0 and (t[1][0][1] & (t[1][0][1] - 1)) == 0:
        sh = t[1][0][1].bit_length() - 1
        c, s = _bits(t[1][0][0])
        return c << sh, [(src, lo, wd, d + sh) for (src, lo, wd, d) in s]
    # a leaf (atom or arg + k): all of its bits, as wide as its range says
    return 0, [(t, 0, _width(t), 0)]


def packing_defects(t, total_bits, ranges):
    """for a bit-packed field (an `or` of shifted components): [reason] for every way a component can corrupt the field
    under the given value ranges - two components that can set the same bit, or a component whose value can need more
    bits than the field leaves it (the excess is cut off by the narrowing to the field's width)"""
    saved = sym.CTX; sym.CTX = ranges
    out = []
    try:
        def comps(x):
            if x[0] == 'or': return comps(x[1]) + comps(x[2])
            return [x]
        inner = t
        while inner[0] == 'trunc': inner = inner[1]
        cs = comps(inner)
        if len(cs) < 2: return []
        used = {}
        for c in cs:
            lo, hi = rng(c)
            if lo < 0 or hi >= sym.BIG:
                out.append('component %s is unbounded' % show(c)); continue
            if hi >= (1 << total_bits):
                out.append('component %s can reach %#x, which does not fit the %d-bit field' % (show(c), hi, total_bits))
            for u in subterms(c):
                if u[0] == 'trunc' and rng(u[1])[1] >= (1 << u[2]):
                    out.append('component %s is cut to %d bits but can reach %#x (bits of the caller\'s value are dropped)' % (show(u[1]), u[2], rng(u[1])[1])); break
            # bits the component can set: for a shifted value v << k with v <= m these are k .. k + bitlen(m) - 1
            k = 0; v = c
            while True:
                if v[0] == 'lin' and len(v[1]) == 1 and v[2] == 0 and v[1][0][1] > 0 and (v[1][0][1] & (v[1][0][1] - 1)) == 0:
                    k += v[1][0][1].bit_length() - 1; v = v[1][0][0]
                elif v[0] == 'trunc': v = v[1]
                else: break
            def leaves(x):
                # the finitely many values of an ite-tree of constants, else None
                if x[0] == 'c': return {x[1]}
                if x[0] == 'ite':
                    a, b_ = leaves(x[2]), leaves(x[3])
                    return None if a is None or b_ is None else a | b_
                return None
            lv = leaves(v)
            if lv is not None:
                bits = {b + k for val in lv for b in range(64) if (val >> b) & 1}
            else:
                vhi = rng(v)[1]
                bits = set(range(k, k + max(vhi.bit_length(), 0)))
            for b in bits:
                if b in used and used[b] != c:
                    out.append('components %s and %s can both set bit %d' % (show(used[b]), show(c), b)); break
            for b in bits: used.setdefault(b, c)
    finally:
        sym.CTX = saved
    return out
