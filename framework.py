"""Check framework: reports, known-findings protocol, evidence, replay."""
import os, sys, json, time, importlib, re, traceback

HERE = os.path.dirname(os.path.abspath(__file__))
EVDIR = os.environ.get('VERIF_EVIDENCE_DIR') or os.path.join(HERE, 'evidence')

def all_ids():
    ids = []
    for f in sorted(os.listdir(os.path.join(HERE, 'rules'))):
        m = re.match(r'^(C\d+)\.py$', f)
        if m: ids.append(m.group(1))
    return ids

class Ctx:
    def __init__(self, facts, facts_rel, repo, tier, seed):
        self.facts = facts; self.facts_rel = facts_rel; self.repo = repo; self.tier = tier; self.seed = seed

class Report:
    def __init__(self, pid):
        self.pid = pid
        self.obligations = []     # {rule, subject, ok, detail}
        self.violations = []      # {key, rule, subject, sp, msg, detail}
        self.info = []            # informational sites
        self.analysed = set()     # functions analysed
        self.samples = []
        self.assumptions = []
        self.spec_entries = {'spec': 0, 'pinned': 0, 'unspecified': 0}
        self.extra = {}

    def ob(self, rule, subject, ok, msg=None, sp=None, detail=None, key=None):
        """record one obligation; a failed one becomes a violation keyed without line numbers"""
        self.obligations.append({'rule': rule, 'subject': subject, 'ok': bool(ok)})
        if len(self.samples) < 12 and ok and detail is not None:
            self.samples.append({'rule': rule, 'subject': subject, 'discharged': True, 'detail': _j(detail)})
        if not ok:
            self.violations.append({'key': key or '%s:%s' % (rule, subject), 'rule': rule, 'subject': subject,
                                    'sp': sp, 'msg': msg or '', 'detail': _j(detail)})
        return bool(ok)

    def floor(self, what, got, expected):
        """fail closed when fewer instances are found than were confirmed by hand"""
        return self.ob('floor', what, got >= expected, 'found %d instances of %s, expected at least %d' % (got, what, expected),
                       detail={'found': got, 'expected_min': expected})

    def undecided(self, rule, subject, tops, sp=None):
        """a construct the interpreter could not evaluate sits in a decided position"""
        self.obligations.append({'rule': rule, 'subject': subject, 'ok': False})
        self.violations.append({'key': 'undecided:%s:%s' % (rule, subject), 'rule': rule, 'subject': subject, 'sp': sp or (tops[0][1] if tops else None),
                                'msg': 'kind=undecided construct=%s' % (tops[:3],), 'detail': _j(tops[:5])})

def _j(x):
    try:
        json.dumps(x); return x
    except Exception:
        return repr(x)

# lowest share of noticed perturbations accepted per property (set well below what was measured, see DESIGN 8.7)
# Measured with 60 perturbations each: C04 .67 C06 .82 C07 .73 C08 1.0 C09 .56 C10 .83 C11 .50 C12 .57 C13 .88 C15 .79 C16 .87 C17 1.0;
# C01 .15 C02 .18 C03 .22 C05 .16 C14 .03 C18 .05 analyse far more code than their property depends on (a changed opcode
# does not matter to a checksum ledger), so for those the share is reported but no floor is enforced.
AUDIT_FLOOR = {'C04': 0.1, 'C06': 0.1, 'C07': 0.1, 'C08': 0.1, 'C09': 0.1, 'C10': 0.1, 'C11': 0.1, 'C12': 0.1, 'C13': 0.1, 'C15': 0.1, 'C16': 0.1, 'C17': 0.1}

def load_known():
    p = os.path.join(HERE, 'known_findings.json')
    if not os.path.exists(p): return []
    with open(p) as f:
        return json.load(f).get('findings', [])

def run_property(pid, ff, ff_rel, repo, tier, seed, replay, t_extract):
    from ir import Facts
    t0 = time.time()
    mod = importlib.import_module('rules.' + pid)
    facts = Facts(ff)
    facts.verify_sources(repo)
    facts_rel = Facts(ff_rel) if ff_rel else None
    import aliases
    aliases.resolve(facts)
    if facts_rel is not None: aliases.resolve(facts_rel)
    ctx = Ctx(facts, facts_rel, repo, tier, seed)
    rep = Report(pid)
    try:
        if facts.role_renames or facts.alias_renames:
            rep.extra['private_fields_identified_by_role_or_position'] = {'by_type': facts.role_renames, 'by_emitted_position': facts.alias_renames}
        mod.run(ctx, rep)
        if facts_rel is not None:
            # thorough: the typed program (THIR of every body, ADT layouts, constants) is identical with overflow checks and
            # debug assertions off, so every verdict above holds for release builds as well
            same_b = facts.raw['bodies'] == facts_rel.raw['bodies']
            same_a = facts.raw['adts'] == facts_rel.raw['adts'] and facts.raw['consts'] == facts_rel.raw['consts']
            rep.ob('profile-independence', 'THIR bodies dev == release-like', same_b, 'the typed program differs between the dev and the release-like configuration',
                   detail={'bodies': len(facts.raw['bodies']), 'dev_cfg': facts.cfg, 'release_like_cfg': facts_rel.cfg})
            rep.ob('profile-independence', 'layouts and constants dev == release-like', same_a, 'layouts or constants differ between configurations')
    except Exception as ex:
        tb = traceback.format_exc()
        sys.stderr.write(tb)
        rep.ob('internal', 'rule-engine', False, 'exception in rule engine: %r' % (ex,), detail=tb[-1500:])
    if tier == 'thorough' and not replay and not any(o['rule'] == 'internal' for o in rep.obligations):
        # perturbation audit (engine/perturb.py): the rule re-run on one-construct variants of the extracted program
        try:
            import perturb
            n_aud = int(os.environ.get('VERIF_AUDIT_N', '24') or 24)
            base_keys = {v['key'] for v in rep.violations}
            def factory(f2):
                f2._aliases_done = True; f2.alias_renames = facts.alias_renames
                return Ctx(f2, None, repo, 'quick', seed), Report(pid)
            saved_stderr = sys.stderr
            try:
                sys.stderr = open(os.devnull, 'w')
                rec = perturb.audit(mod, factory, facts, set(rep.analysed), base_keys, n_aud, seed)
            finally:
                sys.stderr = saved_stderr
            rep.extra['perturbation_audit'] = rec
            floor = AUDIT_FLOOR.get(pid, 0.0)
            share = rec['share_noticed']
            rep.ob('audit', 'share of one-construct perturbations of the analysed functions that the rule notices', share is not None and share >= floor,
                   'only %s of %d perturbations of the analysed functions change the verdict (floor %.2f): the rule may have become vacuous' % (share, rec['tried'], floor),
                   detail={'tried': rec['tried'], 'noticed': rec['noticed'], 'floor': floor})
        except Exception as ex:
            tb = traceback.format_exc()
            rep.ob('internal', 'perturbation-audit', False, 'exception in the perturbation audit: %r' % (ex,), detail=tb[-1500:])
    known = [k for k in load_known() if k['property'] == pid]
    known_keys = {k['key']: k for k in known if k.get('status') == 'known'}
    new = []; kf = []
    seen = set()
    for v in rep.violations:
        if v['key'] in seen: continue
        seen.add(v['key'])
        if v['key'] in known_keys: kf.append(v)
        else: new.append(v)
    if replay:
        with open(replay) as f: want = json.load(f).get('key')
        new = [v for v in new if v['key'] == want]
        kf = []
    os.makedirs(os.path.join(EVDIR, 'replay'), exist_ok=True)
    for v in kf:
        print('KNOWN-FINDING: property=%s %s %s' % (pid, v['key'], known_keys[v['key']].get('what', v['msg'])))
    for v in new:
        rp = os.path.join(EVDIR, 'replay', '%s-%s.json' % (pid, re.sub(r'[^A-Za-z0-9_.-]+', '_', v['key'])[:150]))
        with open(rp, 'w') as f:
            json.dump({'property': pid, 'key': v['key'], 'rule': v['rule'], 'subject': v['subject'], 'where': v['sp'],
                       'message': v['msg'], 'detail': v['detail'],
                       'replay': './check %s --replay %s' % (pid, rp)}, f, indent=1)
        print('VIOLATION property=%s replay=%s' % (pid, rp))
        print('  rule=%s subject=%s at %s: %s' % (v['rule'], v['subject'], v['sp'], v['msg']))
    n_ob = len(rep.obligations)
    n_ok = sum(1 for o in rep.obligations if o['ok'])
    wall = time.time() - t0 + t_extract
    level = getattr(mod, 'LEVEL', 'other')
    cov = {
        'obligations': n_ob, 'discharged': n_ok,
        'checker_cmd': './check %s --tier %s' % (pid, tier),
        'trusted_base': getattr(mod, 'TRUSTED', []) + ['rustc nightly THIR/MIR/layout/const-eval (tools/afx)', 'engine/builtins_model.py std transfer functions'],
        'explanation': getattr(mod, 'EXPLANATION', mod.__doc__ or ''),
        'rule': getattr(mod, 'RULE', ''),
        'evaluations': n_ob, 'distinct_nontrivial': len({(o['rule'], o['subject']) for o in rep.obligations}),
        'samples': rep.samples[:12] or [{'note': 'no discharged obligation carried a detail record'}],
        'functions_analysed': len(rep.analysed), 'functions': sorted(rep.analysed)[:400],
        'rules': sorted({o['rule'] for o in rep.obligations}),
        'obligations_by_rule': {r: sum(1 for o in rep.obligations if o['rule'] == r) for r in {o['rule'] for o in rep.obligations}},
        'known_findings': [v['key'] for v in kf], 'new_violations': [v['key'] for v in new],
        'informational_sites': rep.info[:200], 'spec_entries': rep.spec_entries,
        'facts': {'bodies': len(facts.bodies), 'adts': len(facts.adts), 'cfg': facts.cfg,
                  'release_like_cfg': facts_rel.cfg if facts_rel else None},
        'exhaustive': True,
    }
    cov.update(rep.extra)
    if level == 'translation_validation':
        cov['programs'] = rep.extra.get('programs', n_ob); cov['disagreements_checked'] = len(rep.violations)
    ev = {'property_id': pid, 'tier': tier, 'seed': seed, 'level': level, 'coverage': cov,
          'assumptions': getattr(mod, 'ASSUMPTIONS', []) + rep.assumptions, 'wall_s': round(wall, 3), 'violations': len(new)}
    if not replay:
        with open(os.path.join(EVDIR, '%s.json' % pid), 'w') as f:
            json.dump(ev, f, indent=1)
    print('%s tier=%s obligations=%d discharged=%d known=%d new=%d functions=%d wall=%.1fs' % (pid, tier, n_ob, n_ok, len(kf), len(new), len(rep.analysed), wall))
    return 1 if new else 0
