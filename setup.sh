#!/bin/sh
# MANIFEST.setup_cmd: build the fact extractor offline; warm the dependency cache.
set -e
cd "$(dirname "$0")"
export CARGO_NET_OFFLINE=true
(cd tools/afx && cargo +nightly build --release --offline 2>&1 | tail -3)
python3 -m compileall -q engine spec >/dev/null 2>&1 || true
exec ./check --warmup
