#!/usr/bin/env python3
"""Self-test of the checker (not a registered check): applies one-line mutations of /repo to a
scratch copy under $TMPDIR, re-runs the property's check against the copy and requires a report
that names the mutated instance; the scratch copy is removed afterwards.

  selftest/run.py [Cxx ...]        run the catalogue (all, or the given properties)
"""
import os, sys, json, subprocess, shutil, tempfile, re
HERE = os.path.dirname(os.path.abspath(__file__))
ROOT = os.path.dirname(HERE)
sys.path.insert(0, HERE)
from catalogue import MUTANTS

def main():
    want = set(sys.argv[1:])
    ok = bad = 0
    for m in MUTANTS:
        if want and m['prop'] not in want and m['name'] not in want: continue
        tmp = tempfile.mkdtemp(prefix='acpimut-')
        try:
            subprocess.check_call(['rsync', '-a', '--exclude', 'target', '--exclude', '.git', '/repo/', tmp + '/'])
            for (path, old, new) in m['edits']:
                p = os.path.join(tmp, path)
                if old is None:
                    open(p, 'w').write(new); continue       # a new file
                t = open(p).read()
                if t.count(old) < 1:
                    print('STALE  %-6s %s: anchor text not found in %s' % (m['prop'], m['name'], path)); bad += 1; break
                open(p, 'w').write(t.replace(old, new, 1))
            else:
                ids = [m['prop']] if m['prop'] != 'ALL' else ['all']
                r = subprocess.run([os.path.join(ROOT, 'check')] + ids + ['--repo', tmp], stdout=subprocess.PIPE, stderr=subprocess.STDOUT, text=True,
                                   env=dict(os.environ, VERIF_EVIDENCE_DIR=os.path.join(tmp, 'evidence')))
                viol = [l for l in r.stdout.splitlines() if l.startswith('  rule=') or l.startswith('VIOLATION')]
                if m['expect'] is None:
                    if r.returncode == 0 and not viol: print('silent %-6s %s (benign edit)' % (m['prop'], m['name'])); ok += 1
                    else:
                        print('FALSE-ALARM %-6s %s' % (m['prop'], m['name'])); bad += 1
                        for l in viol[:6]: print('        ', l[:200])
                    continue
                hit = any(m['expect'] in l for l in viol)
                if r.returncode == 1 and hit:
                    print('caught %-6s %s' % (m['prop'], m['name'])); ok += 1
                else:
                    print('MISSED %-6s %s (exit %d)' % (m['prop'], m['name'], r.returncode)); bad += 1
                    for l in viol[:6]: print('        ', l[:200])
                    if r.returncode not in (0, 1) or not viol: print(r.stdout[-600:])
        finally:
            shutil.rmtree(tmp, ignore_errors=True)
    # restore evidence from the real tree for the properties touched
    print('%d caught, %d missed/stale' % (ok, bad))
    return 1 if bad else 0

if __name__ == '__main__':
    sys.exit(main())
