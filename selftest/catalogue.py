"""Mutation catalogue (DESIGN Appendix E): each compiles and passes the 88 tests; `expect` is a
substring that must occur in the report (the mutated instance)."""
MUTANTS = [
 dict(prop='C05', name='benign: add_cache recomputes the old counter after the advance', expect=None,
      edits=[('src/pptt.rs', "        let old_offset = self.handle_offset;\n        self.handle_offset += CacheNode::len() as u32;", "        self.handle_offset += CacheNode::len() as u32;\n        let old_offset = self.handle_offset - CacheNode::len() as u32 + 0 * 1 + (self.structures.len() as u32 & 0);")]),
 dict(prop='C05', name='add_cache returns the advanced counter', expect='order subject=pptt::PPTT::add_cache',
      edits=[('src/pptt.rs', "        self.structures.push(Box::new(node));\n        CacheHandle(old_offset)", "        self.structures.push(Box::new(node));\n        let _ = old_offset;\n        CacheHandle(self.handle_offset)")]),
 dict(prop='C05', name='add_mmu_node forgets the advance', expect='rhct::RHCT::add_mmu_node',
      edits=[('src/rhct.rs', "        self.handle_offset += MmuNode::len() as u32;\n", "")]),
 dict(prop='C05', name='PciRange stores handle+0x10', expect='viot::PciRange::new',
      edits=[('src/viot.rs', "            translation_offset: translation_handle.0,\n        }\n    }\n\n    fn u8sum(&self) -> u8 {\n        u8sum(self)\n    }\n\n    fn len() -> usize {\n        24", "            translation_offset: translation_handle.0 | 1,\n        }\n    }\n\n    fn u8sum(&self) -> u8 {\n        u8sum(self)\n    }\n\n    fn len() -> usize {\n        24")]),
 dict(prop='C01', name='XSDT deletes new_len bytes on carry', expect='xsdt::XSDT::add_entry',
      edits=[('src/xsdt.rs', "        self.checksum.delete(old_len.as_bytes());", "        if new_len & 0xff == 0 { self.checksum.delete(new_len.as_bytes()); } else { self.checksum.delete(old_len.as_bytes()); }")]),
 dict(prop='C01', name='Tpm2 set_log_area forgets large min_len', expect='tpm2::Tpm2::set_log_area',
      edits=[('src/tpm2.rs', "        self.checksum.append(min_len.as_bytes());", "        if min_len <= 0xffff { self.checksum.append(min_len.as_bytes()); }")]),
 dict(prop='C01', name='SRAT forgets the reserved 1', expect='srat::SRAT::new',
      edits=[('src/srat.rs', "        cksum.add(1); // from the reserved `1` immediately after the header\n", "")]),
 dict(prop='C01', name='HMAT update_header does not refresh the stored byte', expect='hmat::HMAT',
      edits=[('src/hmat.rs', "        self.checksum.add(sum);\n        self.header.checksum = self.checksum.value();", "        self.checksum.add(sum);\n        if len != 40 { self.header.checksum = self.checksum.value(); }")]),
 dict(prop='C02', name='MmioEndpoint::len 24->20', expect='viot::VIOT::add_mmio_endpoint',
      edits=[('src/viot.rs', "impl MmioEndpoint {\n    pub fn new(endpoint_id: u32, base_addr: u64, translation_handle: &TranslationHandle) -> Self {\n        Self {\n            endpoint: endpoint_id,\n            base_addr,\n            translation_offset: translation_handle.0,\n        }\n    }\n\n    fn len() -> usize {\n        24", "impl MmioEndpoint {\n    pub fn new(endpoint_id: u32, base_addr: u64, translation_handle: &TranslationHandle) -> Self {\n        Self {\n            endpoint: endpoint_id,\n            base_addr,\n            translation_offset: translation_handle.0,\n        }\n    }\n\n    fn len() -> usize {\n        20")]),
 dict(prop='C02', name='HMAT add_memory_side_cache passes a sibling length', expect='hmat::HMAT::add_memory_side_cache',
      edits=[('src/hmat.rs', "        self.update_header(c.len() as u32, u8sum(&c));", "        self.update_header(MemoryProximityDomain::len() as u32, u8sum(&c));")]),
 dict(prop='C02', name='Sdt append_slice writes the old length', expect='sdt::Sdt::append_slice',
      edits=[('src/sdt.rs', "        self.write_u32(4, new_length as u32);\n        self.data.extend_from_slice(data);", "        self.write_u32(4, orig_length as u32);\n        self.data.extend_from_slice(data);")]),
 dict(prop='C17', name='sub uses wrapping_add', expect='Checksum::sub',
      edits=[('src/lib.rs', "        self.value = self.value.wrapping_sub(data);", "        self.value = self.value.wrapping_add(data);")]),
 dict(prop='C17', name='value() drops the +1', expect='Checksum::value',
      edits=[('src/lib.rs', "        (255 - self.value).wrapping_add(1)", "        (255 - self.value).wrapping_add(0)")]),
]
MUTANTS += [
 dict(prop='C07', name='threshold 2^12-2 -> 2^12-1', expect='create_pkg_length',
      edits=[('src/aml.rs', "len < (2usize.pow(12) - 2)", "len < (2usize.pow(12) - 1)")]),
 dict(prop='C07', name='shift 12 -> 11 in the 3-byte arm', expect='create_pkg_length',
      edits=[('src/aml.rs', "            result.push((length >> 4) as u8);\n            result.push((length >> 12) as u8);\n        }\n        _ =>", "            result.push((length >> 4) as u8);\n            result.push((length >> 11) as u8);\n        }\n        _ =>")]),
 dict(prop='C07', name='lead byte mask 0xf -> 0x1f in the 2-byte arm', expect='create_pkg_length',
      edits=[('src/aml.rs', "result.push((1u8 << 6) | (length & 0xf) as u8);", "result.push((1u8 << 6) | (length & 0x1f) as u8);")]),
 dict(prop='C07', name='Method frames without the flags byte', expect="aml::Method",
      edits=[('src/aml.rs', "        let pkg_length = create_pkg_length(bytes.len(), true);\n\n        sink.byte(METHODOP);", "        let pkg_length = create_pkg_length(bytes.len() - 1, true);\n\n        sink.byte(METHODOP);")]),
 dict(prop='C08', name='<= Word::MAX -> < Word::MAX', expect='impl Aml for u32',
      edits=[('src/aml.rs', "if *self <= Word::MAX.into() {", "if *self < Word::MAX.into() {")]),
 dict(prop='C08', name='DWORD/QWORD prefixes swapped', expect='impl Aml for u',
      edits=[('src/aml.rs', "const DWORDPREFIX: u8 = 0x0c;", "const DWORDPREFIX: u8 = 0x0e;"), ('src/aml.rs', "const QWORDPREFIX: u8 = 0x0e;", "const QWORDPREFIX: u8 = 0x0c;")]),
 dict(prop='C08', name='u16 delegates 256 to the byte path', expect='impl Aml for u16',
      edits=[('src/aml.rs', "if *self <= Byte::MAX.into() {", "if *self <= 256 {")]),
]
MUTANTS += [
 dict(prop='C06', name='MIDOP 0x9e -> 0x9f', expect='aml::Mid', edits=[('src/aml.rs', "const MIDOP: u8 = 0x9e;", "const MIDOP: u8 = 0x9f;")]),
 dict(prop='C06', name='Store emits name before value', expect='aml::Store',
      edits=[('src/aml.rs', "        sink.byte(STOREOP);\n        self.value.to_aml_bytes(sink);\n        self.name.to_aml_bytes(sink);", "        sink.byte(STOREOP);\n        self.name.to_aml_bytes(sink);\n        self.value.to_aml_bytes(sink);")]),
 dict(prop='C06', name='Mutex without ExtOpPrefix', expect='aml::Mutex',
      edits=[('src/aml.rs', "        sink.byte(EXTOPPREFIX);\n        sink.byte(MUTEXOP);", "        sink.byte(MUTEXOP);")]),
 dict(prop='C06', name='binary op constructor swaps a and b', expect='aml::Subtract',
      edits=[('src/aml.rs', "                $name { target, a, b }", "                $name { target, a: b, b: a }")]),
 dict(prop='C06', name='If writes the predicate outside the frame', expect='aml::If',
      edits=[('src/aml.rs', "        let mut bytes = Vec::new();\n        self.predicate.to_aml_bytes(&mut bytes);\n        for child in self.if_children.iter() {\n            child.to_aml_bytes(&mut bytes);\n        }\n\n        let pkg_length = create_pkg_length(bytes.len(), true);\n\n        sink.byte(IFOP);\n        sink.vec(&pkg_length);",
             "        let mut bytes = Vec::new();\n        for child in self.if_children.iter() {\n            child.to_aml_bytes(&mut bytes);\n        }\n\n        let pkg_length = create_pkg_length(bytes.len(), true);\n\n        sink.byte(IFOP);\n        sink.vec(&pkg_length);\n        self.predicate.to_aml_bytes(sink);")]),
 dict(prop='C06', name='Arg guard weakened to <= 7', expect='aml::Arg', edits=[('src/aml.rs', "assert!(self.0 <= 6);", "assert!(self.0 <= 7);")]),
 dict(prop='C09', name='2-segment arm emits MultiNamePrefix', expect='aml::Path',
      edits=[('src/aml.rs', "            2 => {\n                sink.byte(DUALNAMEPREFIX);", "            2 => {\n                sink.byte(MULTINAMEPREFIX);")]),
 dict(prop='ALL', name='segment assertion weakened to <= 4 (copy_from_slice still refuses other lengths)', expect=None,
      edits=[('src/aml.rs', "            assert_eq!(part.len(), 4);", "            assert!(part.len() <= 4);")]),
 dict(prop='ALL', name='segment assertion moved after the push (a panicking constructor returns nothing)', expect=None,
      edits=[('src/aml.rs', "            assert_eq!(part.len(), 4);\n            let mut name_part = [0u8; 4];\n            name_part.copy_from_slice(part.as_bytes());\n            name_parts.push(name_part);",
              "            let mut name_part = [0u8; 4];\n            name_part.copy_from_slice(part.as_bytes());\n            name_parts.push(name_part);\n            assert_eq!(part.len(), 4);")]),
 dict(prop='C09', name='short segments zero-padded instead of refused', expect='aml::Path::new',
      edits=[('src/aml.rs', "            assert_eq!(part.len(), 4);\n            let mut name_part = [0u8; 4];\n            name_part.copy_from_slice(part.as_bytes());",
              "            assert!(part.len() <= 4);\n            let mut name_part = [0u8; 4];\n            name_part[..part.len()].copy_from_slice(part.as_bytes());")]),
 dict(prop='C10', name='Memory32Fixed length 9 -> 10', expect='aml::Memory32Fixed', edits=[('src/aml.rs', "for byte in 9u16.to_le_bytes()", "for byte in 10u16.to_le_bytes()")]),
 dict(prop='C10', name='EndTag checksum byte dropped', expect='aml::ResourceTemplate', edits=[('src/aml.rs', "        bytes.push(0); /* zero checksum byte */\n", "")]),
 dict(prop='C10', name='interrupt shared bit 3 -> 4', expect='aml::Interrupt', edits=[('src/aml.rs', "((self.shared as u8) << 3)", "((self.shared as u8) << 4)")]),
 dict(prop='C10', name='address space length max-min (no +1)', expect='aml::AddressSpace<u32>',
      edits=[('src/aml.rs', "        sink.dword(self.translation.unwrap_or(0)); /* Translation */\n        assert!(self.min <= self.max);\n        let len = (self.max - self.min).checked_add(1).unwrap();", "        sink.dword(self.translation.unwrap_or(0)); /* Translation */\n        assert!(self.min <= self.max);\n        let len = (self.max - self.min).checked_add(0).unwrap();")]),
 dict(prop='C15', name='copy_within(1..n, m)', expect='Scope', edits=[('src/aml.rs', "copy_within(1..n, m + 1)", "copy_within(1..n, m)")]),
 dict(prop='C15', name='add_element increments twice', expect='PackageBuilder', edits=[('src/aml.rs', "        self.elements += 1;", "        self.elements += 2;")]),
 dict(prop='C15', name='raw scope computes length from n', expect='Scope', edits=[('src/aml.rs', "create_pkg_length(n - 1, true);", "create_pkg_length(n, true);")]),
 dict(prop='C16', name='EISA shift 21 -> 20', expect='EISAName', edits=[('src/aml.rs', ".unwrap()) << 21)", ".unwrap()) << 20)")]),
 dict(prop='C16', name='UUID pair (4,5)<->(6,7)', expect='Uuid',
      edits=[('src/aml.rs', "        data.push(hex2byte(name_vec[6], name_vec[7]));\n        // cc - at offset 01\n        data.push(hex2byte(name_vec[4], name_vec[5]));", "        data.push(hex2byte(name_vec[4], name_vec[5]));\n        // cc - at offset 01\n        data.push(hex2byte(name_vec[6], name_vec[7]));")]),
 dict(prop='C16', name='dash assertion at 13 removed', expect='dash 13', edits=[('src/aml.rs', "        assert_eq!(name_vec[13], '-');\n", "")]),
 dict(prop='C16', name='hex2byte swaps nibbles', expect='Uuid', edits=[('src/aml.rs', "    (hi << 4) | lo", "    (lo << 4) | hi")]),
]
MUTANTS += [
 dict(prop='C13', name='append_slice without the final update_checksum', expect='sdt::Sdt::append_slice',
      edits=[('src/sdt.rs', "        self.data.extend_from_slice(data);\n        self.update_checksum();", "        self.data.extend_from_slice(data);")]),
 dict(prop='C13', name='write_bytes truncates a write that would end past the table instead of refusing it', expect='sdt::Sdt::write',
      edits=[('src/sdt.rs', "        assert!(offset + data.len() <= self.data.len());\n        self.data.as_mut_slice()[offset..offset + data.len()].copy_from_slice(data);",
              "        let end = core::cmp::min(offset + data.len(), self.data.len());\n        assert!(offset <= end);\n        self.data.as_mut_slice()[offset..end].copy_from_slice(&data[..end - offset]);")]),
 dict(prop='ALL', name='benign: write_bytes assertion one byte too generous - the slice bound of the copy still refuses the same writes before anything is modified', expect=None,
      edits=[('src/sdt.rs', "assert!(offset + data.len() <= self.data.len());", "assert!(offset + data.len() <= self.data.len() + 1);")]),
 dict(prop='C13', name='append writes the value one byte early', expect='sdt::Sdt::append',
      edits=[('src/sdt.rs', "        self.write(orig_length, value);", "        self.write(orig_length - 1, value);")]),
 dict(prop='C13', name='update_checksum sums from byte 1', expect='update_checksum',
      edits=[('src/sdt.rs', "super::generate_checksum(self.data.as_slice());", "super::generate_checksum(&self.data.as_slice()[1..]);")]),
 dict(prop='C13', name='a new public method pokes data directly', expect='sdt::Sdt::poke',
      edits=[('src/sdt.rs', "    pub fn len(&self) -> usize {\n        self.data.len()", "    pub fn poke(&mut self, v: u8) {\n        self.data[10] = v;\n    }\n\n    pub fn len(&self) -> usize {\n        self.data.len()")]),
]
MUTANTS += [
 dict(prop='C14', name='Vec sink gains a big-endian word', expect='alloc::vec::Vec<u8> as AmlSink::word',
      edits=[('src/lib.rs', "    fn vec(&mut self, v: &[u8]) {\n        self.extend_from_slice(v);\n    }\n}", "    fn vec(&mut self, v: &[u8]) {\n        self.extend_from_slice(v);\n    }\n\n    fn word(&mut self, word: u16) {\n        self.extend_from_slice(&word.to_be_bytes());\n    }\n}")]),
 dict(prop='C14', name='a static counter read in a serialiser', expect='static',
      edits=[('src/aml.rs', "impl Aml for Zero {\n    fn to_aml_bytes(&self, sink: &mut dyn AmlSink) {\n        sink.byte(ZEROOP);", "static CALLS: core::sync::atomic::AtomicU8 = core::sync::atomic::AtomicU8::new(0);\n\nimpl Aml for Zero {\n    fn to_aml_bytes(&self, sink: &mut dyn AmlSink) {\n        sink.byte(ZEROOP & CALLS.fetch_add(0, core::sync::atomic::Ordering::Relaxed));")]),
 dict(prop='C14', name='Gicd hand-written serialiser skips vector_base', expect='madt::Gicd',
      edits=[('src/madt.rs', "aml_as_bytes!(Gicd);", "impl Aml for Gicd {\n    fn to_aml_bytes(&self, sink: &mut dyn AmlSink) {\n        sink.vec(&self.as_bytes()[0..16]);\n        sink.vec(&self.as_bytes()[20..24]);\n    }\n}")]),
 dict(prop='C14', name='default dword swaps halves', expect='default AmlSink::dword',
      edits=[('src/lib.rs', "        self.vec(&dword.to_le_bytes());", "        self.vec(&dword.rotate_left(16).to_le_bytes());")]),
 dict(prop='C14', name='PackageBuilder::vec drops empty-looking chunks', expect='aml::PackageBuilder as AmlSink::vec',
      edits=[('src/aml.rs', "    fn vec(&mut self, v: &[u8]) {\n        self.data.extend_from_slice(v);\n    }", "    fn vec(&mut self, v: &[u8]) {\n        if v.len() != 3 {\n            self.data.extend_from_slice(v);\n        }\n    }")]),
]
MUTANTS += [
 dict(prop='C12', name='SLIT second index uses domain_a twice', expect='slit::SLIT::set_distance',
      edits=[('src/slit.rs', "        let old_ba = self.entries[domain_b + self.localities as usize * domain_a];\n        self.entries[domain_b + self.localities as usize * domain_a] = locality_value;", "        let old_ba = self.entries[domain_a + self.localities as usize * domain_a];\n        self.entries[domain_a + self.localities as usize * domain_a] = locality_value;")]),
 dict(prop='C12', name='HMAT stride back to initiators', expect='hmat::SystemLocality::set_entry_value',
      edits=[('src/hmat.rs', "initiator_idx * self.targets.len() + target_idx", "initiator_idx * self.initiators.len() + target_idx")]),
 dict(prop='C12', name='HMAT default cell 0xFFFF -> 0', expect='hmat::SystemLocality::new',
      edits=[('src/hmat.rs', "const UNREACHABLE_DOMAIN: u16 = 0xffff;", "const UNREACHABLE_DOMAIN: u16 = 0;")]),
 dict(prop='C12', name='SLIT default distance 10 -> 11 with matching checksum', expect='slit::SLIT::new',
      edits=[('src/slit.rs', "entries.resize(entry_count as usize, 10);", "entries.resize(entry_count as usize, 11);")]),
 dict(prop='C12', name='HMAT serialiser emits targets before initiators', expect='hmat::SystemLocality',
      edits=[('src/hmat.rs', "        for initiator in &self.initiators {\n            sink.dword(*initiator);\n        }\n\n        for target in &self.targets {\n            sink.dword(*target);\n        }", "        for target in &self.targets {\n            sink.dword(*target);\n        }\n\n        for initiator in &self.initiators {\n            sink.dword(*initiator);\n        }")]),
]
MUTANTS += [
 dict(prop='C11', name='hotpluggable ors Enabled', expect='srat::MemoryAffinity::hotpluggable',
      edits=[('src/srat.rs', "        self.flags |= MemoryAffinityFlags::HotPluggable as u32;", "        self.flags |= MemoryAffinityFlags::Enabled as u32;")]),
 dict(prop='C11', name='sci_gpe forgets the flag', expect='tpm2::TpmServer1_2::sci_gpe',
      edits=[('src/tpm2.rs', "        self.gpe = sci_gpe_bit;\n        self.interrupt_flags |= 1 << 2;", "        self.gpe = sci_gpe_bit;")]),
 dict(prop='C11', name='Flags::Headless 1<<12 -> 1<<24', expect='fadt::Flags::Headless',
      edits=[('src/fadt.rs', "    Headless = 1 << 12,", "    Headless = 1 << 24,")]),
 dict(prop='C11', name='gsi() also clears the GPE flag', expect='tpm2::TpmServer1_2::gsi',
      edits=[('src/tpm2.rs', "        self.gsi = gsi.into();\n        self.interrupt_flags |= 1 << 3;", "        self.gsi = gsi.into();\n        self.interrupt_flags = (self.interrupt_flags & !(1 << 2)) | (1 << 3);")]),
 dict(prop='C11', name='leaf() also zeroes parent', expect='pptt::ProcessorNode::leaf',
      edits=[('src/pptt.rs', "        self.flags |= Self::LEAF;", "        self.flags |= Self::LEAF;\n        self.parent = 0;")]),
 dict(prop='C11', name='Gicc maintenance edge uses the performance bit', expect='madt::Gicc::maintenance_interrupt',
      edits=[('src/madt.rs', "                .set(flags | GiccFlags::MaintenanceInterruptEdgeTriggered as u32);", "                .set(flags | GiccFlags::PerformanceInterruptEdgeTriggered as u32);")]),
 dict(prop='C11', name='setter writes a neighbour field', expect='madt::Gicc::parked_address',
      edits=[('src/madt.rs', "    mutable_setter!(parked_address, u64);", "    pub fn parked_address(mut self, parked_address: u64) -> Self {\n        self.base_address = parked_address.into();\n        self\n    }")]),
 dict(prop='C11', name='Iommu flags: proximity bit tied to pci_device', expect='rimt::Iommu::flags',
      edits=[('src/rimt.rs', "        if self.proximity_domain.is_some() {\n            flags |= 0x2;", "        if self.pci_device.is_some() {\n            flags |= 0x2;")]),
]
MUTANTS += [
 dict(prop='C03', name='IoApic.length 12 -> 16', expect='madt::IoApic', edits=[('src/madt.rs', "            length: 12,", "            length: 16,")]),
 dict(prop='C03', name='HartInfoNode count hard-wired to 1', expect='rhct::HartInfoNode', edits=[('src/rhct.rs', "        sink.word(u16::try_from(self.handles.len()).unwrap());", "        sink.word(1);")]),
 dict(prop='C03', name='RHCT array_offset 56 -> 52', expect='rhct::RHCT', edits=[('src/rhct.rs', "            array_offset: 56.into(),", "            array_offset: 52.into(),")]),
 dict(prop='C03', name='RHCT node count bumped twice for hart info', expect='rhct::RHCT',
      edits=[('src/rhct.rs', "        self.handle_offset += hi.len() as u32;\n        self.update_header(hi.u8sum(), hi.len() as u32);", "        self.handle_offset += hi.len() as u32;\n        self.update_header(hi.u8sum(), hi.len() as u32);\n        let n = self.header.rhct_nodes.get();\n        self.checksum.delete(n.as_bytes());\n        self.header.rhct_nodes = (n + 1).into();\n        self.checksum.append((n + 1).as_bytes());\n        self.header.table_header.checksum = self.checksum.value();")]),
 dict(prop='C03', name='QoSController forgets to count a resource', expect='rqsc::QoSController',
      edits=[('src/rqsc.rs', "        self.number_of_resources = self.number_of_resources.checked_add(1).unwrap();\n", "        if self.number_of_resources < 3 {\n            self.number_of_resources = self.number_of_resources.checked_add(1).unwrap();\n        }\n")]),
 dict(prop='C03', name='MADT emits structures in reverse', expect='madt::MADT', edits=[('src/madt.rs', "        for st in &self.structures {\n            st.to_aml_bytes(sink);", "        for st in self.structures.iter().rev() {\n            st.to_aml_bytes(sink);")]),
 dict(prop='C03', name='SRAT add_generic_initiator inserts at the front', expect='srat::SRAT::add_generic_initiator',
      edits=[('src/srat.rs', "        self.update_header(GenericInitiator::len() as u32, st.u8sum());\n        self.structures.push(Box::new(st));", "        self.update_header(GenericInitiator::len() as u32, st.u8sum());\n        self.structures.insert(0, Box::new(st));")]),
 dict(prop='C03', name='Platform mapping offset forgets the NUL', expect='rimt::Platform', edits=[('src/rimt.rs', "        Self::NAME_OFFSET + self.name.len() + 1\n", "        Self::NAME_OFFSET + self.name.len()\n")]),
 dict(prop='C03', name='CMO node type 1 -> 3', expect='rhct::CmoNode', edits=[('src/rhct.rs', "    Cmo = 1,", "    Cmo = 3,")]),
 dict(prop='C04', name='PciRange swaps first/last segment', expect='viot::PciRange',
      edits=[('src/viot.rs', "        sink.word(self.first.segment);\n        sink.word(self.last.segment);", "        sink.word(self.last.segment);\n        sink.word(self.first.segment);")]),
 dict(prop='C04', name='MemoryAffinity reserved dword becomes a word (+len compensated elsewhere)', expect='srat::MemoryAffinity',
      edits=[('src/srat.rs', "        sink.dword(0); // reserved\n        sink.dword(self.flags);\n        sink.qword(0); // reserved", "        sink.word(0); // reserved\n        sink.dword(self.flags);\n        sink.qword(0); // reserved\n        sink.word(0);")]),
 dict(prop='C04', name='Gicc swaps two U32 fields', expect='madt::Gicc',
      edits=[('src/madt.rs', "    cpu_interface_number: U32,\n    acpi_processor_uid: U32,", "    acpi_processor_uid: U32,\n    cpu_interface_number: U32,")]),
 dict(prop='C04', name='SRAT reserved must-be-one becomes 0 (checksum adjusted)', expect='srat::SRAT',
      edits=[('src/srat.rs', "        cksum.add(1); // from the reserved `1` immediately after the header\n", ""), ('src/srat.rs', "        sink.dword(1); // reserved to be 1 for backward compatibility.", "        sink.dword(0); // reserved to be 1 for backward compatibility.")]),
 dict(prop='C04', name='MemorySideCache packs write policy at bit 11', expect='hmat::MemorySideCache', edits=[('src/hmat.rs', "| ((write_policy as u32) << 12)", "| ((write_policy as u32) << 11)")]),
 dict(prop='C04', name='IMSIC constructor swaps guest/supervisor ids', expect='madt::IMSIC',
      edits=[('src/madt.rs', "            num_supervisor_interrupt_identities: num_supervisor_interrupt_identities.into(),\n            num_guest_interrupt_identities: num_guest_interrupt_identities.into(),", "            num_supervisor_interrupt_identities: num_guest_interrupt_identities.into(),\n            num_guest_interrupt_identities: num_supervisor_interrupt_identities.into(),")]),
 dict(prop='C04', name='TableHeader field becomes big-endian', expect='BigEndian',
      edits=[('src/lib.rs', "    pub oem_revision: U32,\n    pub creator_id: [u8; 4],", "    pub oem_revision: byteorder::U32<byteorder::BE>,\n    pub creator_id: [u8; 4],")]),
 dict(prop='C04', name='GIC version enum value shifted', expect='madt::Gicd', edits=[('src/madt.rs', "            gic_version: version as u8,", "            gic_version: (version as u8) << 1,")]),
 dict(prop='C04', name='FADT minor version field moved before reset value', expect='fadt::FADTBuilder',
      edits=[('src/fadt.rs', "    pub reset_value: u8,\n    pub arm_boot_arch: U16,\n    pub fadt_minor_version: u8,", "    pub fadt_minor_version: u8,\n    pub reset_value: u8,\n    pub arm_boot_arch: U16,")]),
]
MUTANTS += [
 dict(prop='C18', name='remove assert!(self.0 <= 6) from Arg', expect='aml::Arg', edits=[('src/aml.rs', "        assert!(self.0 <= 6);\n", "")]),
 dict(prop='C18', name='new unguarded as u8 on the XOR map count', expect='cedt::XorInterleaveMath', edits=[('src/cedt.rs', "u8::try_from(self.bitmaps.len()).unwrap()", "self.bitmaps.len() as u8")]),
 dict(prop='C18', name='Method args guard removed', expect='aml::Method', edits=[('src/aml.rs', "        assert!(self.args <= 7);\n", "")]),
 dict(prop='C18', name='PkgLength 2^28 guard removed', expect='create_pkg_length', edits=[('src/aml.rs', "            assert!(length < 2usize.pow(28));\n", "")]),
 dict(prop='C18', name='PCI device assertion removed in viot', expect='viot::PciDevice', edits=[('src/viot.rs', "        assert!(device < 32);\n        assert!(function < 8);\n\n        Self {\n            segment,", "        assert!(function < 8);\n\n        Self {\n            segment,")]),
 dict(prop='C18', name='Tpm2 set_log_area length assertion removed', expect='tpm2::Tpm2::set_log_area', edits=[('src/tpm2.rs', "        assert!(old_len == 52);\n", "")]),
 dict(prop='C18', name='address space size back to wrapping arithmetic', expect='aml::AddressSpace<u32>',
      edits=[('src/aml.rs', "        sink.dword(self.translation.unwrap_or(0)); /* Translation */\n        assert!(self.min <= self.max);\n        let len = (self.max - self.min).checked_add(1).unwrap();", "        sink.dword(self.translation.unwrap_or(0)); /* Translation */\n        let len = self.max.wrapping_sub(self.min).wrapping_add(1);")]),
 dict(prop='C18', name='a new u16 count field fed by len()', expect='hmat::HMAT::entry_count_hint',
      edits=[('src/hmat.rs', "    pub fn add_memory_proximity(&mut self, m: MemoryProximityDomain) {", "    pub fn entry_count_hint(&self) -> u16 {\n        self.entries.len() as u16\n    }\n\n    pub fn add_memory_proximity(&mut self, m: MemoryProximityDomain) {")]),
 dict(prop='C18', name='SLIT back to unchecked multiplication', expect='slit::SLIT::new', edits=[('src/slit.rs', "localities.checked_mul(localities).unwrap()", "localities * localities")]),
 dict(prop='C18', name='QoS resource count back to +=', expect='rqsc::QoSController::add_resource', edits=[('src/rqsc.rs', "self.number_of_resources = self.number_of_resources.checked_add(1).unwrap();", "self.number_of_resources += 1;")]),
]
# ---- benign refactors: behaviour unchanged, every check must stay silent
MUTANTS += [
 dict(prop='ALL', name='benign: XSDT add_entry appends entry via as_bytes and reorders independent statements', expect=None,
      edits=[('src/xsdt.rs', "        self.checksum.delete(old_len.as_bytes());\n        self.checksum.append(new_len.as_bytes());\n        self.checksum.append(&entry.to_le_bytes());\n        self.header.checksum = self.checksum.value();\n        self.entries.push(entry);",
                             "        self.entries.push(entry);\n        self.checksum.append(entry.as_bytes());\n        self.checksum.append(new_len.as_bytes());\n        self.checksum.delete(old_len.as_bytes());\n        self.header.checksum = self.checksum.value();")]),
 dict(prop='ALL', name='benign: SRAT serialiser iterates with for_each and a renamed local', expect=None,
      edits=[('src/srat.rs', "        for st in &self.structures {\n            st.to_aml_bytes(sink);\n        }\n    }\n}\n\n#[repr(u8)]\nenum SratStructureType", "        self.structures.iter().for_each(|entry| entry.to_aml_bytes(sink));\n    }\n}\n\n#[repr(u8)]\nenum SratStructureType")]),
 dict(prop='ALL', name='benign: MemoryAffinity emits the low/high dwords through a helper', expect=None,
      edits=[('src/srat.rs', "        sink.dword((self.base_address & 0xffff_ffff) as u32);\n        sink.dword(((self.base_address >> 32) & 0xffff_ffff) as u32);", "        Self::split(sink, self.base_address);"),
             ('src/srat.rs', "    fn len() -> usize {\n        40\n    }", "    fn split(sink: &mut dyn AmlSink, v: u64) {\n        let lo = (v & 0xffff_ffff) as u32;\n        let hi = (v >> 32) as u32;\n        sink.dword(lo);\n        sink.dword(hi);\n    }\n\n    fn len() -> usize {\n        40\n    }")]),
 dict(prop='ALL', name='benign: Device builds its body with extend instead of a loop over children into the same buffer', expect=None,
      edits=[('src/aml.rs', "impl Aml for Device<'_> {\n    fn to_aml_bytes(&self, sink: &mut dyn AmlSink) {\n        let mut bytes = Vec::new();\n        self.path.to_aml_bytes(&mut bytes);\n        for child in &self.children {\n            child.to_aml_bytes(&mut bytes);\n        }",
                            "impl Aml for Device<'_> {\n    fn to_aml_bytes(&self, sink: &mut dyn AmlSink) {\n        let mut body = Vec::new();\n        for child in &self.children {\n            child.to_aml_bytes(&mut body);\n        }\n        let mut bytes = Vec::new();\n        self.path.to_aml_bytes(&mut bytes);\n        bytes.extend_from_slice(&body);")]),
 dict(prop='ALL', name='benign: create_pkg_length thresholds written as constants', expect=None,
      edits=[('src/aml.rs', "    let length_length = if len < (2usize.pow(6) - 1) {\n        1\n    } else if len < (2usize.pow(12) - 2) {\n        2\n    } else if len < (2usize.pow(20) - 3) {\n        3", "    let length_length = if len <= 62 {\n        1\n    } else if len <= 4093 {\n        2\n    } else if len < 0x10_0000 - 3 {\n        3")]),
 dict(prop='ALL', name='benign: RIMT handle offset advanced before update_header with a saved length', expect=None,
      edits=[('src/rimt.rs', "        let iommu_offset = IommuOffset(self.handle_offset as u32);\n        self.update_header(iommu.u8sum(), iommu.len() as u32);\n        self.handle_offset += iommu.len();", "        let iommu_offset = IommuOffset(self.handle_offset as u32);\n        let node_len = iommu.len();\n        self.handle_offset += node_len;\n        self.update_header(iommu.u8sum(), node_len as u32);")]),
 dict(prop='ALL', name='benign: Checksum::append written with fold', expect=None,
      edits=[('src/lib.rs', "        let mut value: u8 = self.value;\n        for b in data {\n            value = value.wrapping_add(*b);\n        }\n\n        self.value = value;\n    }\n\n    pub fn delete", "        self.value = data.iter().fold(self.value, |acc, b| acc.wrapping_add(*b));\n    }\n\n    pub fn delete")]),
 dict(prop='ALL', name='benign: Tpm2 serialiser matches on the options instead of if-let', expect=None,
      edits=[('src/tpm2.rs', "        if let Some(laml) = self.log_area_min_len {\n            sink.dword(laml);\n        }", "        match self.log_area_min_len {\n            Some(laml) => sink.dword(laml),\n            None => {}\n        }")]),
]
MUTANTS += [
 dict(prop='ALL', name='benign: create_pkg_length picks the width from the bit length of the inclusive length', expect=None,
      edits=[('src/aml.rs', "    let length_length = if len < (2usize.pow(6) - 1) {\n        1\n    } else if len < (2usize.pow(12) - 2) {\n        2\n    } else if len < (2usize.pow(20) - 3) {\n        3\n    } else {\n        4\n    };",
              "    let bits = |v: usize| (usize::BITS - v.leading_zeros()) as usize;\n    let length_length = if bits(len + 1) <= 6 {\n        1\n    } else if bits(len + 2) <= 12 {\n        2\n    } else if bits(len + 3) <= 20 {\n        3\n    } else {\n        4\n    };")]),
 dict(prop='C07', name='bit-length width selection off by one bit', expect='create_pkg_length',
      edits=[('src/aml.rs', "    let length_length = if len < (2usize.pow(6) - 1) {\n        1\n    } else if len < (2usize.pow(12) - 2) {\n        2\n    } else if len < (2usize.pow(20) - 3) {\n        3\n    } else {\n        4\n    };",
              "    let bits = |v: usize| (usize::BITS - v.leading_zeros()) as usize;\n    let length_length = if bits(len + 1) <= 6 {\n        1\n    } else if bits(len + 2) <= 13 {\n        2\n    } else if bits(len + 3) <= 20 {\n        3\n    } else {\n        4\n    };")]),
 dict(prop='ALL', name='benign: QoSController::len computed from its resources with map/sum', expect=None,
      edits=[('src/rqsc.rs', "    pub fn len(&self) -> usize {\n        self.length as usize\n    }\n\n    pub fn add_resource", "    pub fn len(&self) -> usize {\n        28 + self.resource_structure.iter().map(|r| r.len()).sum::<usize>()\n    }\n\n    pub fn add_resource")]),
 dict(prop='ALL', name='XSDT serialiser iterates with enumerate()', expect=None,
      edits=[('src/xsdt.rs', "        for entry in &self.entries {\n            sink.qword(*entry);", "        for (_pos, entry) in self.entries.iter().enumerate() {\n            sink.qword(*entry);")]),
 dict(prop='ALL', name='private field MemoryAffinity.flags renamed', expect=None,
      edits=[('src/srat.rs', "    length: u64,\n    flags: u32,\n}\n\nimpl MemoryAffinity {", "    length: u64,\n    mem_flags: u32,\n}\n\nimpl MemoryAffinity {"),
             ('src/srat.rs', "            length,\n            flags: 0,", "            length,\n            mem_flags: 0,"),
             ('src/srat.rs', "self.flags |= MemoryAffinityFlags::Enabled as u32;", "self.mem_flags |= MemoryAffinityFlags::Enabled as u32;"),
             ('src/srat.rs', "self.flags |= MemoryAffinityFlags::HotPluggable as u32;", "self.mem_flags |= MemoryAffinityFlags::HotPluggable as u32;"),
             ('src/srat.rs', "self.flags |= MemoryAffinityFlags::NonVolatile as u32;", "self.mem_flags |= MemoryAffinityFlags::NonVolatile as u32;"),
             ('src/srat.rs', "        sink.dword(((self.length >> 32) & 0xffff_ffff) as u32);\n        sink.dword(0); // reserved\n        sink.dword(self.flags);", "        sink.dword(((self.length >> 32) & 0xffff_ffff) as u32);\n        sink.dword(0); // reserved\n        sink.dword(self.mem_flags);")]),
 dict(prop='ALL', name='Checksum moved into a private module and re-exported under its old path', expect=None,
      edits=[('src/lib.rs', '''/// Object used to keep track of a rolling u8 sum, for which
/// the checksum can be derived via value().
#[derive(Debug, Default)]
pub struct Checksum {
    value: u8,
}

impl AmlSink for Checksum {
    fn byte(&mut self, byte: u8) {
        self.add(byte);
    }
}

impl Checksum {
    pub fn append(&mut self, data: &[u8]) {
        let mut value: u8 = self.value;
        for b in data {
            value = value.wrapping_add(*b);
        }

        self.value = value;
    }

    pub fn delete(&mut self, data: &[u8]) {
        let mut value: u8 = self.value;
        for b in data {
            value = value.wrapping_sub(*b);
        }

        self.value = value;
    }

    pub fn add(&mut self, data: u8) {
        self.value = self.value.wrapping_add(data);
    }

    pub fn sub(&mut self, data: u8) {
        self.value = self.value.wrapping_sub(data);
    }

    pub fn raw_value(&self) -> u8 {
        self.value
    }

    pub fn value(&self) -> u8 {
        (255 - self.value).wrapping_add(1)
    }
}
''', ''),
             ('src/lib.rs', 'pub mod aml;', 'mod checksum;\npub use checksum::Checksum;\n\npub mod aml;'),
             ('src/checksum.rs', None, '''use crate::AmlSink;

/// Object used to keep track of a rolling u8 sum, for which
/// the checksum can be derived via value().
#[derive(Debug, Default)]
pub struct Checksum {
    value: u8,
}

impl AmlSink for Checksum {
    fn byte(&mut self, byte: u8) {
        self.add(byte);
    }
}

impl Checksum {
    pub fn append(&mut self, data: &[u8]) {
        let mut value: u8 = self.value;
        for b in data {
            value = value.wrapping_add(*b);
        }

        self.value = value;
    }

    pub fn delete(&mut self, data: &[u8]) {
        let mut value: u8 = self.value;
        for b in data {
            value = value.wrapping_sub(*b);
        }

        self.value = value;
    }

    pub fn add(&mut self, data: u8) {
        self.value = self.value.wrapping_add(data);
    }

    pub fn sub(&mut self, data: u8) {
        self.value = self.value.wrapping_sub(data);
    }

    pub fn raw_value(&self) -> u8 {
        self.value
    }

    pub fn value(&self) -> u8 {
        (255 - self.value).wrapping_add(1)
    }
}
''')]),
 dict(prop='C13', name='a free function in the sdt module writes the image behind the checksum', expect='Sdt.data',
      edits=[('src/sdt.rs', "impl Sdt {\n", "pub fn smash(t: &mut Sdt) {\n    t.data[10] = 1;\n}\n\nimpl Sdt {\n")]),
 dict(prop='C18', name='PkgLength refusal bound one bit too high', expect='aml::create_pkg_length',
      edits=[('src/aml.rs', "            assert!(length < 2usize.pow(28));", "            assert!(length < 2usize.pow(29));")]),
 dict(prop='C04', name='SRAT device handle accepts device number 32', expect='srat::GenericInitiator::new',
      edits=[('src/srat.rs', "        // The variant's fields are public, so a handle may not have gone through new_pci()\n        assert!(device < 32);", "        // The variant's fields are public, so a handle may not have gone through new_pci()\n        assert!(device <= 32);")]),
 dict(prop='C16', name='hex2byte refuses the digit F in the low nibble', expect='aml::Uuid::new',
      edits=[('src/aml.rs', "    assert!(lo <= 15);", "    assert!(lo < 15);")]),
 dict(prop='C02', name='Tpm2 log area makes the start-method parameter slice one byte too long', expect='tpm2::Tpm2',
      edits=[('src/tpm2.rs', "        self.start_method_param_len = 12;", "        self.start_method_param_len = 13;")]),
 dict(prop='C04', name='a second deviation in a structure that already has a known finding (validation/flags exchanged in GenericErrorData)', expect='hest::GenericErrorData',
      edits=[('src/hest.rs', "        sink.byte(self.validation);\n        sink.byte(self.flags);", "        sink.byte(self.flags);\n        sink.byte(self.validation);")]),
 dict(prop='C04', name='MCFG allocation entry: reserved byte set', expect='mcfg::MCFG::add_ecam',
      edits=[('src/mcfg.rs', "            _reserved: [0, 0, 0, 0],", "            _reserved: [0, 0, 0, 1],")]),
 dict(prop='C04', name='GAS::new_pci_config puts the function number in the device word', expect='gas::GAS::new_pci_config',
      edits=[('src/gas.rs', "(((device as u64) << 32) | ((function as u64) << 16) | (register as u64))", "(((function as u64) << 32) | ((device as u64) << 16) | (register as u64))")]),
 dict(prop='C04', name='CxlFixedMemory::new stores base address and size in each other\'s field', expect='cedt::CxlFixedMemory::new',
      edits=[('src/cedt.rs', "        Self {\n            base_addr,\n            size,\n            interleave_arithmetic: arithmetic,", "        Self {\n            base_addr: size,\n            size: base_addr,\n            interleave_arithmetic: arithmetic,")]),
 dict(prop='C04', name='IdMapping::new exchanges source and destination id', expect='rimt::IdMapping::new',
      edits=[('src/rimt.rs', "        Self {\n            src_id,\n            dst_id,\n            num_ids,", "        Self {\n            src_id: dst_id,\n            dst_id: src_id,\n            num_ids,")]),
 dict(prop='C03', name='GenericErrorData::add_data forgets the data', expect='hest::GenericErrorData::add_data',
      edits=[('src/hest.rs', "    pub fn add_data(&mut self, data: Box<dyn Aml>) {\n        self.data.push(data);", "    pub fn add_data(&mut self, data: Box<dyn Aml>) {\n        let _ = data;")]),
 dict(prop='C03', name='add_xormap pushes the complement of the map', expect='cedt::XorInterleaveMath::add_xormap',
      edits=[('src/cedt.rs', "        self.bitmaps.push(xormap);", "        self.bitmaps.push(!xormap);")]),
]
MUTANTS += [
 dict(prop='C14', name='a sink wrapper whose method looks at the address of the sink it holds', expect='obliviousness',
      edits=[('src/aml.rs', "impl Aml for Zero {\n    fn to_aml_bytes(&self, sink: &mut dyn AmlSink) {\n        sink.byte(ZEROOP);", "struct ZeroWriter<'a>(&'a mut dyn AmlSink);\n\nimpl ZeroWriter<'_> {\n    fn put(&mut self, b: u8) {\n        let p = &*self.0 as *const dyn AmlSink as *const u8 as usize;\n        self.0.byte(b | (p & 0) as u8);\n    }\n}\n\nimpl Aml for Zero {\n    fn to_aml_bytes(&self, sink: &mut dyn AmlSink) {\n        ZeroWriter(sink).put(ZEROOP);")]),
 dict(prop='C14', name='benign: a private wrapper around the sink that only forwards to the five methods', expect=None,
      edits=[('src/aml.rs', "impl Aml for Zero {\n    fn to_aml_bytes(&self, sink: &mut dyn AmlSink) {\n        sink.byte(ZEROOP);", "struct ZeroWriter<'a>(&'a mut dyn AmlSink);\n\nimpl ZeroWriter<'_> {\n    fn put(&mut self, b: u8) {\n        self.0.byte(b);\n    }\n}\n\nimpl Aml for Zero {\n    fn to_aml_bytes(&self, sink: &mut dyn AmlSink) {\n        ZeroWriter(sink).put(ZEROOP);")]),
]
