"""C01 - every emitted static table carries a valid ACPI checksum.

Checksum-ledger analysis.  For a table that keeps a running `Checksum` the invariant
    I(T):  ledger == S(E(T) with the checksum byte zeroed)   and   header.checksum == -ledger (mod 256)
is shown at the exit of every public constructor (O-ctor) and shown to be preserved by every public
mutator on a fully symbolic table state (O-step: delta-ledger == delta-S(E), then the stored byte is
refreshed from the final ledger).  S is the formal byte-sum of the emission shape; both sides are
sums of byte-sum atoms such as S[le4(len+1)], so a `checksum.add(1)` standing for a multi-byte count
is *not* equal to S[le4(n+1)] - S[le4(n)] and is reported, whatever n a test would have tried.
For tables that recompute from scratch (and the by-value builders) the obligation is direct:
header.checksum + S(rest of the image) == 0 after every constructor and every operation.
RSDP: both the first 20 bytes and all 36 sum to 0.  Sdt: the stored image sums to 0 after every
public operation.  FADT: only `finalize` can produce a serialisable FADT (typestate)."""
from sym import *
import sym
from model import *
from tables import *
from evalr import SeqV, StructV, RefV, Cell, stored_sum, S_of
import copy
from rules.C02 import raw_equiv as _len_equiv, entry_len_subst

LEVEL = 'proof'
RULE = 'checksum-ledger analysis: formal byte-sum of the emission shape vs ledger arithmetic, inductively over the public API'
TRUSTED = ['byte-sum algebra (engine/evalr.py S_of, stored_sum)', 'Z256 normal form (engine/sym.py wrap)', 'C17 (value() == -raw mod 256)']
ASSUMPTIONS = ['foreign T: Aml + IntoBytes given to MADT/HEST add_structure serialises to its raw bytes (C14 decides this for every crate type)',
               'callers do not write pub fields of Rsdp / FADTBuilder after construction; tables < 4 GiB']
EXPLANATION = __doc__

def raw_equiv(t):
    """O-raw: S(raw bytes of t) == S(serialised t) for T: Aml + IntoBytes (delegated to C14)"""
    def f(x):
        if x[0] == 'S' and isinstance(x[1], tuple) and x[1][0] == 'raw' and isinstance(x[1][1], tuple) and x[1][1][0] == 'call' and x[1][1][1] == 'asbytes':
            return ('S', ('emit', x[1][1][2]))
        if x[0] == 'call' and x[1] == 'size_of_val': return ('call', 'elen', x[2])
        return None
    return rebuild(t, f)

def z(t):
    from evalr import canon_bytes
    return wrap(canon_bytes(strip_trunc(raw_equiv(t))), 256)

def run(ctx, rep):
    _run(ctx, rep)
    if ctx.tier == 'thorough':
        import witness
        witness.check(rep, ctx, ['C01FadtTypestate', 'C01FadtConstruction'])

def _run(ctx, rep):
    f = ctx.facts
    tables = all_tables(f)
    rep.floor('tables with a TableHeader', len(tables), 18)
    n_ledger = 0; n_steps = 0
    for T in tables:
        if T.has_ledger: n_ledger += 1
        n_steps += table_obligations(f, rep, T)
    rep.floor('tables with a running Checksum', n_ledger, 13)
    rep.floor('public table mutators', n_steps, 40)
    fadt(f, rep); rsdp(f, rep); sdt(f, rep)

def table_obligations(f, rep, T):
    """ledger / from-scratch obligations of one table (also used by C12 for the SLIT's checksum clause)"""
    n_steps = 0
    for s in T.ctors + T.steps:
        rep.analysed.add(s.fn['def'])
        for c in s.I.calls_seen: rep.analysed.add(c)
    rep.ob('anchor', T.ty + ' constructors', len(T.ctors) >= 1, 'no public constructor found for ' + T.ty)
    for s in T.ctors:
        subj = s.fn['def']
        if s.tops or s.E_post is None:
            rep.undecided('O-ctor', subj, s.tops, s.fn['sp']); continue
        Ssum, ck = byte_sum_excluding(s.E_post, 9)
        hck = T.header(s.post).fields['checksum']
        if ck is None or ck[1] != hck:
            rep.ob('O-field', subj, False, 'byte 9 of the image is not the header checksum field', sp=s.fn['sp']); continue
        facts_ = [c for c, _ in s.I.st.facts]
        tot = z(add(Ssum, hck))
        ok, w = equal(tot, ZERO, facts_)
        rep.ob('O-ctor', subj, ok, 'after %s the image sums to %s (mod 256), not 0' % (s.fn['name'], show(tot)), sp=s.fn['sp'],
               detail={'image_sum_mod_256': show(tot), 'stored_checksum': show(hck), 'witness': w})
        if T.has_ledger:
            led = T.ledger_value(s.post)
            d = z(sub(led, Ssum))
            ok2, w2 = equal(d, ZERO, facts_)
            rep.ob('O-ctor-ledger', subj, ok2, 'after %s the running sum differs from the byte sum of the image by %s' % (s.fn['name'], show(d)), sp=s.fn['sp'],
                   detail={'ledger': show(z(led)), 'image_sum_without_checksum_byte': show(z(Ssum)), 'difference': show(d), 'witness': w2})
    for s in T.steps:
        subj = s.fn['def']; n_steps += 1
        if s.tops or s.E_post is None or s.E_pre is None:
            rep.undecided('O-step', subj, s.tops, s.fn['sp']); continue
        S0, ck0 = byte_sum_excluding(s.E_pre, 9); S1, ck1 = byte_sum_excluding(s.E_post, 9)
        hck1 = T.header(s.post).fields['checksum']
        L0 = T.header(s.pre).fields['length']
        facts_ = [c for c, _ in s.facts] + [cmp('eq', L0, strip_trunc(seqlen(s.E_pre)))]
        if T.has_ledger:
            l0 = T.ledger_value(s.pre); l1 = T.ledger_value(s.post)
            dl = z(sub(l1, l0)); dS = z(sub(S1, S0))
            resid = z(sub(sub(l1, l0), sub(S1, S0)))
            ok, w = equal(resid, ZERO, facts_)
            rep.ob('O-step', subj, ok, '%s changes the running sum by %s but the image bytes by %s (residual %s)' % (s.fn['name'], show(dl), show(dS), show(resid)), sp=s.fn['sp'],
                   detail={'delta_ledger': show(dl), 'delta_image_sum': show(dS), 'residual': show(resid), 'witness': w})
            # the stored byte is refreshed from the final ledger (or nothing that is emitted changed)
            ok2, w2 = equal(z(add(hck1, l1)), ZERO, facts_)
            if not ok2 and dS == ZERO and dl == ZERO and hck1 == T.header(s.pre).fields['checksum']: ok2 = True
            rep.ob('O-refresh', subj, ok2, 'after %s header.checksum is %s, not the complement of the running sum %s' % (s.fn['name'], show(hck1), show(z(l1))), sp=s.fn['sp'],
                   detail={'stored_checksum': show(hck1), 'ledger': show(z(l1)), 'witness': w2})
        else:
            tot = z(add(S1, hck1))
            ok, w = equal(tot, ZERO, facts_)
            rep.ob('O-scratch', subj, ok, 'after %s the image sums to %s (mod 256), not 0' % (s.fn['name'], show(tot)), sp=s.fn['sp'],
                   detail={'image_sum_mod_256': show(tot), 'witness': w})
    # O-typestate: tables without mutators expose nothing through which the image could change
    if not T.steps:
        pubf = [n for n, fd in T.fields.items() if fd['vis'] == 'pub']
        rep.ob('O-typestate', T.ty, not pubf, 'immutable-after-new table %s has public fields %s' % (T.ty, pubf))
    # O-stable: only the table's own methods write its fields
    ws = writers_of(f, T.ty)
    own = {b['def'] for b in T.fns.values()} | {d for d, b in f.bodies.items() if b.get('derived')}
    own |= {d for d in ws if any(d.startswith(o + '::{closure') for o in own)}
    # crate-private helpers of the table (an impl of a private trait for T, a provided method of such a trait): they are
    # not entry points; they may write as long as everything that calls them is one of the table's own (analysed) methods
    base_ty = norm_ty(T.ty).split('<')[0]
    priv_traits = {b.get('trait') for d, b in f.bodies.items() if b.get('trait') and b.get('vis') != 'pub' and norm_ty(b.get('self_ty') or '').split('<')[0] == base_ty}
    helpers = {d for d, b in f.bodies.items() if b.get('vis') != 'pub' and (
        (b.get('trait') in priv_traits and norm_ty(b.get('self_ty') or '').split('<')[0] == base_ty) or (b.get('trait_default_of') in priv_traits))}
    if helpers & ws:
        cg = callers_of(f, helpers, base_ty)
        leak = sorted(c for c in cg if c not in own and c not in helpers)
        rep.ob('O-stable', T.ty + ':private helpers', not leak, 'crate-private helpers that write %s are called from outside its methods: %s' % (T.ty, leak), detail={'helpers': sorted(helpers), 'callers': sorted(cg)})
        own |= helpers
    extra = sorted(ws - own)
    rep.ob('O-stable', T.ty, not extra, 'functions outside impl %s write its fields: %s' % (T.ty, extra), detail={'writers': sorted(ws)})

    return n_steps

def callers_of(f, targets, self_ty=None):
    """functions containing a call that may reach one of `targets` (resolved callee, or an unresolved call of the same
    trait method)"""
    tnames = {}
    for d in targets:
        b = f.bodies[d]
        tr = b.get('trait') or b.get('trait_default_of')
        if tr: tnames.setdefault((tr, b.get('name')), set()).add(d)
    out = set()
    for d, b in f.bodies.items():
        if b.get('body') is None: continue
        found = [False]
        def walk(x):
            if isinstance(x, dict):
                if x.get('k') == 'Call':
                    c = x.get('resolved') or x.get('callee')
                    # a trait method called for a different concrete Self does not touch this table
                    g0 = norm_ty((x.get('generics') or [''])[0]).split('<')[0] if x.get('trait') else ''
                    other = bool(self_ty) and g0 and g0 != self_ty and f.adt(g0) is not None
                    if c in targets and not other: found[0] = True
                    if (x.get('trait'), x.get('callee_name')) in tnames and not other: found[0] = True
                for v in x.values(): walk(v)
            elif isinstance(x, list):
                for v in x: walk(v)
        walk(b['body'])
        if found[0]: out.add(d)
    return out

def writers_of(f, ty):
    """functions containing an assignment to, or a &mut borrow of, a field of `ty`"""
    base = norm_ty(ty).split('<')[0]
    out = set()
    def is_field_of(e):
        return e.get('k') == 'Field' and norm_ty(strip_refs(e['lhs'].get('ty', ''))).split('<')[0] == base
    def root_field(e):
        while e.get('k') in ('Field', 'Index', 'Deref'):
            if is_field_of(e): return True
            e = e.get('lhs') or e.get('arg')
        return False
    for d, b in f.bodies.items():
        if b.get('body') is None: continue
        found = [False]
        def walk(x):
            if isinstance(x, dict):
                if x.get('k') in ('Assign', 'AssignOp') and root_field(x['lhs']): found[0] = True
                if x.get('k') == 'Borrow' and x.get('mut') and root_field(x['arg']): found[0] = True
                for v in x.values(): walk(v)
            elif isinstance(x, list):
                for v in x: walk(v)
        walk(b['body'])
        if found[0]: out.add(d)
    return out

def fadt(f, rep):
    fb = fns_of(f, 'fadt::FADTBuilder')
    if 'new' not in fb or 'finalize' not in fb:
        rep.ob('anchor', 'fadt::FADTBuilder', False, 'FADTBuilder::new/finalize not found'); return
    # finalize on an arbitrary builder state yields an image that sums to zero
    I = new_interp(f)
    sv = I.sym_value('fadt::FADTBuilder', 'self')
    fin = run_fn(I, fb['finalize']['def'], [sv])
    rep.analysed.update([fb['finalize']['def']] + I.calls_seen)
    segs = emit_value(I, fin, 'fadt::FADT') if isinstance(fin, StructV) else None
    if segs is None or I.tops: rep.undecided('O-scratch', 'fadt::FADTBuilder::finalize', I.tops, fb['finalize']['sp'])
    else:
        tot = z(S_of(segs))
        rep.ob('O-scratch', 'fadt::FADTBuilder::finalize', equal(tot, ZERO)[0], 'a finalized FADT sums to %s (mod 256)' % show(tot), sp=fb['finalize']['sp'],
               detail={'image_sum_mod_256': show(tot), 'bytes': show(seqlen(segs))})
    # typestate: FADT values are only built by finalize; the builder itself cannot be serialised
    sites = adt_sites(f, 'fadt::FADT')
    rep.ob('O-typestate', 'fadt::FADT construction sites', sites == {fb['finalize']['def']}, 'FADT is constructed outside finalize: %s' % sorted(sites), detail={'sites': sorted(sites)})
    adt = f.adt('fadt::FADT')
    priv = adt and all(fd['vis'] != 'pub' for fd in adt['variants'][0]['fields'])
    rep.ob('O-typestate', 'fadt::FADT fields private', bool(priv), 'FADT exposes its table publicly, so a checksummed image can be altered')
    rep.ob('O-typestate', 'fadt::FADTBuilder not serialisable', f.method('Aml', 'fadt::FADTBuilder', 'to_aml_bytes') is None, 'FADTBuilder implements Aml: an un-finalized table can be emitted')
    muts = [b['def'] for n, b in fns_of(f, 'fadt::FADT').items() if is_pub(b) and classify(b, 'fadt::FADT') in ('mut', 'builder')]
    rep.ob('O-typestate', 'fadt::FADT has no mutators', not muts, 'FADT has mutators that do not refresh the checksum: %s' % muts)

def adt_sites(f, path):
    out = set()
    for d, b in f.bodies.items():
        if b.get('body') is None: continue
        found = [False]
        def walk(x):
            if isinstance(x, dict):
                if x.get('k') == 'Adt' and x.get('adt') == path: found[0] = True
                for v in x.values(): walk(v)
            elif isinstance(x, list):
                for v in x: walk(v)
        walk(b['body'])
        if found[0]: out.add(d)
    return out

def rsdp(f, rep):
    fs = fns_of(f, 'rsdp::Rsdp')
    if 'new' not in fs: rep.ob('anchor', 'rsdp::Rsdp', False, 'Rsdp::new not found'); return
    I = new_interp(f)
    st = run_fn(I, fs['new']['def'], sym_args(I, fs['new']))
    rep.analysed.update([fs['new']['def']] + I.calls_seen)
    segs = emit_value(I, st, 'rsdp::Rsdp') if isinstance(st, StructV) else None
    if segs is None or I.tops: rep.undecided('O-rsdp', 'rsdp::Rsdp::new', I.tops, fs['new']['sp']); return
    lst, total = with_offsets(segs)
    first = [s for p, s in lst if p[0] == 'c' and p[1] < 20]
    l20 = seqlen(first)
    rep.ob('O-rsdp', 'rsdp::Rsdp::new:layout', l20 == C(20) and total == C(36), 'RSDP layout is not 20 + 16 bytes (first part %s, total %s)' % (show(l20), show(total)), sp=fs['new']['sp'])
    s20 = z(S_of(first)); s36 = z(S_of(segs))
    rep.ob('O-rsdp', 'rsdp::Rsdp::new:first20', equal(s20, ZERO)[0], 'the first 20 bytes of the RSDP sum to %s (mod 256)' % show(s20), sp=fs['new']['sp'], detail={'sum20': show(s20)})
    rep.ob('O-rsdp', 'rsdp::Rsdp::new:all36', equal(s36, ZERO)[0], 'the 36 bytes of the RSDP sum to %s (mod 256)' % show(s36), sp=fs['new']['sp'], detail={'sum36': show(s36)})
    muts = [b['def'] for n, b in fs.items() if is_pub(b) and classify(b, 'rsdp::Rsdp') in ('mut', 'builder')]
    rep.ob('O-typestate', 'rsdp::Rsdp has no mutators', not muts, 'Rsdp has mutators that do not refresh the checksums: %s' % muts)

def sdt(f, rep):
    from rules.C02 import _generic_variants, _sdt_arg
    fs = fns_of(f, 'sdt::Sdt')
    if 'new' not in fs: rep.ob('anchor', 'sdt::Sdt', False, 'Sdt::new not found'); return
    def total(I, sv):
        d = sv.fields['data']
        seg = ('stored', tuple(d.segs), tuple(d.stores), 1, 'u8')
        return z(stored_sum(seg))
    I = new_interp(f)
    st = run_fn(I, fs['new']['def'], sym_args(I, fs['new']))
    rep.analysed.update([fs['new']['def']] + I.calls_seen)
    if not isinstance(st, StructV) or I.tops: rep.undecided('O-scratch', 'sdt::Sdt::new', I.tops, fs['new']['sp'])
    else:
        t = total(I, st)
        rep.ob('O-scratch', 'sdt::Sdt::new', equal(t, ZERO, [c for c, _ in I.st.facts])[0], 'after Sdt::new the image sums to %s (mod 256)' % show(t), sp=fs['new']['sp'], detail={'sum': show(t)})
    n = 0
    for name, b in sorted(fs.items()):
        if not is_pub(b) or classify(b, 'sdt::Sdt') != 'mut': continue
        for variant in _generic_variants(b):
            I = new_interp(f)
            sv = I.sym_value('sdt::Sdt', 'self')
            I.st.ranges[seqlen(sv.fields['data'].segs)] = (36, (1 << 63) - 1)
            args = [_sdt_arg(I, nm, t, variant) for nm, t in params_of(b)[1:]]
            run_fn(I, b['def'], [RefV(Cell(sv), True)] + args, tsub={'T': variant} if variant else None)
            rep.analysed.update([b['def']] + I.calls_seen)
            subj = b['def'] + (('<%s>' % variant) if variant else ''); n += 1
            if I.tops: rep.undecided('O-scratch', subj, I.tops, b['sp']); continue
            sym.CTX = I.st.ranges          # (the byte sum names positions the way the evaluation did: same range facts)
            try:
                t = total(I, sv)
                ok, w = equal(t, ZERO, [c for c, _ in I.st.facts])
            finally:
                sym.CTX = {}
            rep.ob('O-scratch', subj, ok, 'after Sdt::%s the image sums to %s (mod 256), not 0' % (name, show(t)), sp=b['sp'], detail={'sum': show(t), 'witness': w})
    # the sink adapter: every entry point the table overrides leaves an image that sums to zero (the ones it does not
    # override are the trait defaults, which reach the table through `byte` alone - C14 - so they preserve the invariant
    # by induction on the byte calls)
    import sdtsink
    cs = sdtsink.cases(f)
    rep.ob('O-scratch', 'sdt::Sdt as AmlSink overrides', any(m == 'byte' for _, m, _ in cs), 'Sdt does not implement AmlSink::byte', detail={'overrides': [c[0] for c in cs]})
    for label, meth, mk in cs:
        I, sv, old, want = sdtsink.run_case(f, meth, mk)
        rep.analysed.update(I.calls_seen)
        if I.tops: rep.undecided('O-scratch', 'sdt::Sdt as AmlSink::' + label, I.tops, None); continue
        sym.CTX = I.st.ranges
        try:
            t_ = total(I, sv)
            ok = equal(t_, ZERO, [c for c, _ in I.st.facts])[0]
            d_ = sv.fields['data']
            if not ok and not d_.stores and d_.segs == I.sym_value('sdt::Sdt', 'self').fields['data'].segs:
                ok = True      # nothing was delivered and the table is untouched: the invariant carries over
        finally:
            sym.CTX = {}
        rep.ob('O-scratch', 'sdt::Sdt as AmlSink::' + label, ok, 'after pushing through the sink interface the image sums to %s' % show(t_), detail={'sum': show(t_)})
    rep.floor('Sdt operations', n, 14)
