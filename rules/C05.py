"""C05 - handles returned by add operations are true offsets of the node they name.

For the four tables that hand out handles (PPTT, RHCT, RIMT, VIOT), on a fully symbolic table state:
  pairing   : the running offset counter starts at the declared length and every public add path
              advances it by exactly the amount it adds to the declared length (counter == L always;
              with C02, L is the number of bytes emitted so far, i.e. where the next node starts)
  order     : the handle an add path returns is the counter's value *before* the advance
  forgery   : handle newtypes have a private field and are constructed only inside those add paths
  verbatim  : every API that accepts a handle stores it unmodified in exactly one little-endian field
              of the handle's width, at the specification's offset, of the object it builds."""
from sym import *
import sym
from model import *
from tables import *
from evalr import SeqV, StructV, EnumV, RefV, Cell
import copy
from rules.C01 import adt_sites

LEVEL = 'proof'
RULE = 'pairing/ordering of counter and length updates on symbolic states; construction-site and verbatim-flow rules for handle values'
TRUSTED = ['emission-shape interpreter', 'C02 (declared length == bytes emitted)']
ASSUMPTIONS = ['a handle of one table is not used in another table (the types allow it)', 'counter arithmetic does not overflow its integer type (C18 owns those sites)']
EXPLANATION = __doc__

# where a handle argument must land: (consumer function, parameter) -> (emitted type, offset or 'array', width)
SINKS = {
    ('pptt::ProcessorNode::new', 'parent'): ('pptt::ProcessorNode', 8, 4),
    ('pptt::ProcessorNode::add_cache', 'c'): ('pptt::ProcessorNode', 'array', 4),
    ('pptt::CacheNodeBuilder::next_level', 'c'): ('pptt::CacheNode', 8, 4),
    ('rhct::HartInfoNode::new', 'handle'): ('rhct::HartInfoNode', 12, 4),
    ('rhct::HartInfoNode::with_cmo', 'cmo'): ('rhct::HartInfoNode', 'array', 4),
    ('rimt::IdMapping::new', 'dst_iommu_offset'): ('rimt::IdMapping', 12, 4),
    ('viot::PciRange::new', 'translation_handle'): ('viot::PciRange', 16, 2),
    ('viot::MmioEndpoint::new', 'translation_handle'): ('viot::MmioEndpoint', 16, 2),
}

def handle_types(f):
    """newtypes over an integer returned by a public &mut-self method of a table"""
    out = {}
    for T in [t for t in all_tables(f) if 'handle_offset' in t.fields]:
        for s in T.steps:
            r = norm_ty(s.fn.get('ret', ''))
            adt = f.adt(r)
            if adt and adt['kind'] == 'Struct' and len(adt['variants'][0]['fields']) == 1 and int_bits_of(adt['variants'][0]['fields'][0]['ty']):
                out.setdefault(r, []).append(s.fn['def'])
    return out

def int_bits_of(t):
    from evalr import int_bits
    return int_bits(norm_ty(t))

def run(ctx, rep):
    _run(ctx, rep)
    if ctx.tier == 'thorough':
        import witness
        witness.check(rep, ctx, ['C05ForgeCacheHandle', 'C05ForgeTranslationHandle', 'C05HandleKinds'])

def _run(ctx, rep):
    f = ctx.facts
    tabs = [t for t in all_tables(f) if 'handle_offset' in t.fields]
    rep.floor('tables with an offset counter', len(tabs), 4)
    n_paths = 0
    for T in tabs:
        for s in T.ctors + T.steps:
            rep.analysed.add(s.fn['def'])
        for s in T.ctors:
            subj = s.fn['def']
            if s.tops or not isinstance(s.post, StructV): rep.undecided('pairing-init', subj, s.tops, s.fn['sp']); continue
            h0 = strip_trunc(s.post.fields['handle_offset']); L0 = strip_trunc(T.header(s.post).fields['length'])
            ok, w = equal(h0, L0)
            rep.ob('pairing-init', subj, ok, 'offset counter starts at %s but the table length at %s' % (show(h0), show(L0)), sp=s.fn['sp'],
                   detail={'counter': show(h0), 'length': show(L0)})
        for s in T.steps:
            subj = s.fn['def']; n_paths += 1
            if s.tops or not isinstance(s.post, StructV): rep.undecided('pairing', subj, s.tops, s.fn['sp']); continue
            h0 = s.pre.fields['handle_offset']; h1 = s.post.fields['handle_offset']
            L0 = T.header(s.pre).fields['length']; L1 = T.header(s.post).fields['length']
            dh = strip_trunc(sub(h1, h0)); dL = strip_trunc(sub(L1, L0))
            ok, w = equal(dh, dL, [c for c, _ in s.facts])
            rep.ob('pairing', subj, ok, '%s advances the offset counter by %s but the table length by %s' % (s.fn['name'], show(dh), show(dL)), sp=s.fn['sp'],
                   detail={'delta_counter': show(dh), 'delta_length': show(dL), 'witness': w})
            # placement: the image after the add is the image before it with the new node's bytes at the very end,
            # i.e. the node sits exactly where the counter (== old length) said it would
            if s.E_pre is not None and s.E_post is not None:
                node = None
                for a in s.args:
                    v = a.place.get() if isinstance(a, RefV) else a
                    if isinstance(v, StructV) and s.I.f.method('Aml', v.ty, 'to_aml_bytes'): node = v
                if node is None and s.fn['name'] in ('add_isa_string', 'add_mmu_node'):
                    vec = s.post.fields.get('structures'); node = vec.segs[-1][1] if isinstance(vec, SeqV) and vec.segs and vec.segs[-1][0] == 'elem' else None
                if node is not None:
                    nsegs = emit_value(s.I, node, node.ty)
                    tail = s.E_post[-len(nsegs):] if nsegs else []
                    okp = bool(nsegs) and segs_equal(tail, nsegs)[0] and equal(strip_trunc(seqlen(s.E_post[:-len(nsegs)])), strip_trunc(seqlen(s.E_pre)))[0]
                    rep.ob('placement', subj, okp, '%s does not emit the new node at the end of the image (where its handle points): tail is %s' % (s.fn['name'], show_segs(tail)[:160]), sp=s.fn['sp'],
                           detail={'node_bytes': show(seqlen(nsegs)) if nsegs else None, 'tail': show_segs(tail)[:200]})
                else:
                    rep.ob('placement', subj, False, 'cannot identify the node that %s adds' % s.fn['name'], sp=s.fn['sp'])
            r = s.ret
            if isinstance(r, StructV) and list(r.fields) == ['0']:
                hv = strip_trunc(r.fields['0'])
                ok2 = hv == strip_trunc(h0)
                rep.ob('order', subj, ok2, '%s returns %s, not the counter value before the advance (%s)' % (s.fn['name'], show(hv), show(h0)), sp=s.fn['sp'],
                       detail={'returned': show(hv), 'counter_before': show(h0), 'counter_after': show(strip_trunc(h1))})
    rep.floor('add paths of handle tables', n_paths, 13)

    # ---- forgery: private field, constructed only in the add paths that return them
    hts = handle_types(f)
    rep.floor('handle types', len(hts), 6)
    for ht, makers in sorted(hts.items()):
        adt = f.adt(ht)
        rep.ob('forgery', ht + ' field private', adt['variants'][0]['fields'][0]['vis'] != 'pub', 'the handle field of %s is public: callers can forge offsets' % ht)
        sites = adt_sites(f, ht)
        derived_ok = {d for d in sites if f.bodies[d].get('derived')}
        extra = sites - set(makers) - derived_ok
        # a crate-private constructor helper of the handle type is not a forgery site when every call that can reach it
        # comes from an add path (or from another such helper)
        from rules.C01 import callers_of
        helpers = {d for d in extra if f.bodies[d].get('vis') != 'pub' and not f.bodies[d].get('trait')}
        # (other methods of the table that owns the add paths may share such a helper: a handle they do not return is dropped)
        owners = {norm_ty(f.bodies[m].get('self_ty') or '') for m in makers if m in f.bodies}
        siblings = {d for d, b_ in f.bodies.items() if b_.get('self_ty') and norm_ty(b_['self_ty']) in owners and not b_.get('trait')}
        for _ in range(3):
            ok_h = {h for h in helpers if callers_of(f, {h}) <= (set(makers) | helpers | derived_ok | siblings)}
            if ok_h == helpers: break
            helpers = ok_h
        extra = sorted(extra - helpers)
        rep.ob('forgery', ht + ' construction sites', not extra, '%s is constructed outside the add paths: %s' % (ht, extra), detail={'sites': sorted(sites)})
        ctor_fns = [b['def'] for n, b in fns_of(f, ht).items() if is_pub(b) and classify(b, ht) == 'ctor']
        rep.ob('forgery', ht + ' has no public constructor', not ctor_fns, 'public constructors of %s: %s' % (ht, ctor_fns))
        dflt = any(im.get('trait') == 'core::default::Default' and norm_ty(im['self']) == ht for im in f.impls)
        rep.ob('forgery', ht + ' is not Default', not dflt, '%s implements Default: a zero offset can be conjured' % ht)

    # ---- verbatim flow
    consumers = []
    for d, b in f.bodies.items():
        if not b.get('name') or b.get('vis') != 'pub' or b.get('body') is None: continue
        for nm, t in params_of(b):
            if any(ht in norm_ty(t) for ht in hts): consumers.append((b, nm, t))
    rep.floor('functions that accept a handle', len(consumers), 8)
    for b, pname, pty in consumers:
        key_ = (b['def'], pname)
        subj = '%s(%s)' % (b['def'], pname)
        rep.analysed.add(b['def'])
        if key_ not in SINKS:
            rep.ob('verbatim', subj, False, 'a new API accepts a handle but no destination field is specified for it', sp=b['sp']); continue
        ety, where, width = SINKS[key_]
        I = new_interp(f)
        self_ty = b.get('self_ty')
        kind = classify(b, self_ty) if self_ty else 'static'
        args = []
        selfv = None
        ps = params_of(b)
        for i, (nm, t) in enumerate(ps):
            if i == 0 and kind in ('mut', 'builder', 'reader', 'consumer'):
                selfv = I.sym_value(norm_ty(self_ty), 'self'); args.append(RefV(Cell(selfv), True) if kind == 'mut' else selfv); continue
            v = I.sym_value(norm_ty(t), nm)
            if nm == pname and isinstance(v, EnumV) and v.variant is None:
                # Option<&Handle>: analyse the Some case explicitly, None is the absent reference
                inner = I.enum_payload(v, 'Some', '0')
                v = EnumV('core::option::Option', 'Some', {'0': inner}, ty=v.ty)
                hatom = ('a', '%s.Some.0.0' % pname)
            elif nm == pname:
                hatom = ('a', '%s.0' % pname)
            args.append(v)
        r = run_fn(I, b['def'], args)
        obj = selfv if kind == 'mut' else r
        if I.tops or not isinstance(obj, StructV): rep.undecided('verbatim', subj, I.tops, b['sp']); continue
        # builders that are not themselves serialisable: follow the conversion into the emitted type
        oty = obj.ty
        if f.method('Aml', oty, 'to_aml_bytes') is None:
            conv = [bb for n, bb in fns_of(f, oty).items() if is_pub(bb) and classify(bb, oty) == 'consumer' and norm_ty(bb.get('ret', '')) == ety]
            if not conv: rep.ob('verbatim', subj, False, 'cannot find how %s becomes a %s' % (oty, ety), sp=b['sp']); continue
            obj = run_fn(I, conv[0]['def'], [obj]); oty = ety
            rep.analysed.add(conv[0]['def'])
        segs = emit_value(I, obj, oty)
        if segs is None or I.tops: rep.undecided('verbatim', subj, I.tops, b['sp']); continue
        hits = find_atom(segs, hatom)
        ok = len(hits) == 1
        msg = 'the handle reaches %d emitted fields (expected exactly one)' % len(hits)
        if ok:
            off, seg, inrep = hits[0]
            plain = seg[0] == 'int' and seg[1] == hatom and seg[2] == width
            ok = plain and ((where == 'array' and inrep is False and off[0] != 'c') or (where == 'array' and True) or off == C(where))
            if where != 'array': ok = plain and off == C(where)
            else: ok = plain
            msg = 'the handle lands as %s at offset %s; specified: unmodified %d-byte field at %s' % (show_segs([seg]), show(off), width, where)
        rep.ob('verbatim', subj, ok, msg, sp=b['sp'], detail={'emitted_type': oty, 'landing': [(show(o), show_segs([s_])) for o, s_, _ in hits], 'specified': [ety, where, width]})

def find_atom(segs, atom, base=ZERO, inrep=False):
    """[(offset, segment, inside_repetition)] of segments whose value mentions the atom"""
    out = []
    pos = base
    for s in segs:
        if s[0] == 'int':
            if atom in subterms(s[1]): out.append((pos, s, inrep))
        elif s[0] == 'rep':
            out.extend(find_atom(s[3], atom, pos, True))
            if atom in subterms(s[1]): out.append((pos, s, inrep))
        elif s[0] == 'cond':
            out.extend(find_atom(s[2], atom, pos, inrep)); out.extend(find_atom(s[3], atom, pos, inrep))
            if atom in subterms(s[1]): out.append((pos, s, inrep))
        elif s[0] in ('raw', 'opaque'):
            if atom in subterms(s[1]): out.append((pos, s, inrep))
        pos = add(pos, seglen(s))
    return out
