"""C06 - emitted AML parses back to exactly the term tree the caller built.

Per-constructor grammar conformance.  Every `impl Aml` of the AML module is evaluated through its
public constructor on symbolic arguments; the resulting emission shape must equal the constructor's
production from ACPI ch. 20 (spec/aml.py): opcode bytes in order (ExtOpPrefix first), operands in
the specification's order wired to the right constructor arguments, flag bytes bit-packed as
specified, and *framing*: the PkgLength covers exactly the segments that follow it to the end of
the object.  By structural induction over the tree (each child is emitted contiguously, in order,
inside its parent's frame) a grammar-following parser then recovers the tree; the induction step
is argued in DESIGN, its premises - one per constructor - are what this check discharges."""
from sym import *
import sym, sys, os
from model import *
from evalr import SeqV, StructV, EnumV, DynV, RefV, Cell, OuterSink
sys.path.insert(0, os.path.join(os.path.dirname(os.path.dirname(os.path.abspath(__file__))), 'spec'))
import aml as SPEC

LEVEL = 'other'
RULE = 'emission shape of constructor(args) == grammar production over the constructor arguments (opcodes, operand order, flag packing, PkgLength framing)'
TRUSTED = ['spec/aml.py (my reading of ACPI 6.5 ch. 20)', 'emission-shape interpreter']
ASSUMPTIONS = ['the structural induction from per-constructor premises to whole trees is argued, not mechanised; unambiguity of the AML grammar is assumed',
               'name segments use the AML name alphabet (not validated by the crate); MethodCall arity is external by design']
EXPLANATION = __doc__

def expected(I, f, prod, P):
    """production -> expected segment list; P: parameter name -> value"""
    segs = []
    items = list(prod)
    for idx, it in enumerate(items):
        k = it[0]
        if k == 'op': segs.append(('int', C(it[1]), 1))
        elif k == 'pkglen': segs.append(('PKGLEN',))
        elif k == 'name':
            segs += emit_value(I, P[it[1]], 'aml::Path')
        elif k == 'term':
            v = P[it[1]]
            while isinstance(v, RefV): v = v.place.get()
            segs.append(('opaque', v.name))
        elif k == 'terms':
            nm = it[1] + '[i]'
            segs.append(('rep', ('len', ('a', it[1])), nm, (('opaque', ('a', nm)),)))
        elif k in ('u8', 'u16', 'u32', 'u64'):
            segs.append(('int', it[1](P), {'u8': 1, 'u16': 2, 'u32': 4, 'u64': 8}[k]))
        elif k == 'raw':
            v = P[it[1]]
            while isinstance(v, RefV): v = v.place.get()
            segs += list(v.segs)
        elif k == 'integer':
            sink = OuterSink(); I.st.roots.append(sink)
            I.call_local(f.method('Aml', 'usize', 'to_aml_bytes'), [RefV(Cell(it[1](P))), RefV(Cell(sink), True)])
            I.st.roots.remove(sink)
            segs += norm_segs(sink.segs)
        elif k == 'fieldlist':
            nm = it[1] + '[i]'; a = ('a', nm)
            segs.append(('rep', ('len', ('a', it[1])), nm, (('cond', ('isvar', a, 'Named'),
                        (('raw', ('a', nm + '.Named.0'), C(4)), ('pkglen', ('a', nm + '.Named.1'), FALSE)),
                        (('int', ZERO, 1), ('pkglen', ('a', nm + '.Reserved.0'), FALSE))),)))
    # resolve framing: PkgLength covers everything after it
    out = []
    for i, s in enumerate(segs):
        if s == ('PKGLEN',):
            rest = [x for x in segs[i + 1:] if x != ('PKGLEN',)]
            out.append(('pkglen', seqlen(norm_segs(rest)), TRUE))
        else: out.append(s)
    return norm_segs(out)

def run(ctx, rep):
    f = ctx.facts
    n = 0; unspecified = []
    for st, im in f.impls_of('Aml'):
        nst = norm_ty(st)
        in_aml = nst.startswith('aml::') or nst in ("&'static str", 'alloc::string::String') or nst in ('u8', 'u16', 'u32', 'u64', 'usize')
        if not in_aml: continue
        key_ = nst
        if key_ in SPEC.ELSEWHERE and not SPEC.ELSEWHERE[key_].startswith('C06'): continue
        d = f.method('Aml', st, 'to_aml_bytes'); rep.analysed.add(d)
        if key_ in ("&'static str", 'alloc::string::String'):
            I = new_interp(f)
            v = I.sym_value(nst, 'self')
            segs = emit_value(I, v, st)
            P = {'self': v.place.get() if isinstance(v, RefV) else v}
            exp = expected(I, f, SPEC.STRING, P)
            ok, why = segs_equal(segs, exp) if not I.tops else (False, str(I.tops[:2]))
            rep.ob('production', key_, ok, 'string constant: %s' % why, detail={'emitted': show_segs(segs), 'specified': show_segs(exp)}); n += 1
            continue
        if key_ not in SPEC.PRODUCTIONS:
            unspecified.append(key_); rep.spec_entries['unspecified'] += 1
            rep.info.append({'unspecified': key_}); continue
        rep.spec_entries['spec'] += 1
        ctor, prod = SPEC.PRODUCTIONS[key_]
        I = new_interp(f)
        if ctor is None:
            v = I.sym_value(nst, 'self')
            P = None
            class Px(dict):
                def __missing__(self, k): return None
            obj = v; P = {}
        else:
            cb = ctor_of(f, st, ctor)
            if cb is None:
                rep.ob('anchor', key_, False, 'constructor %s::%s not found' % (key_, ctor)); continue
            rep.analysed.add(cb['def'])
            args = sym_args(I, cb)
            P = {nm: a for (nm, _), a in zip(params_of(cb), args)}
            obj = run_fn(I, cb['def'], args)
        if I.tops or not isinstance(obj, StructV):
            rep.undecided('production', key_, I.tops, f.bodies[d]['sp']); continue
        segs = emit_value(I, obj, st)
        exp = expected(I, f, prod, P)
        if I.tops: rep.undecided('production', key_, I.tops, f.bodies[d]['sp']); continue
        ok, why = segs_equal(segs, exp, [c for c, _ in I.st.facts])
        n += 1
        rep.ob('production', key_, ok, '%s: %s' % (key_, why), sp=f.bodies[d]['sp'], detail={'emitted': show_segs(segs), 'specified': show_segs(exp)})
        if key_ in SPEC.GUARDS:
            atom, mx = SPEC.GUARDS[key_]
            g = [x for x in I.guards if x['kind'] == 'assert']
            okg = any(equal(ite(x['cond'], ONE, ZERO), ite(cmp('le', ('a', atom), C(mx)), ONE, ZERO))[0] for x in g)
            rep.ob('operand-guard', key_, okg, '%s must refuse operands above %d before emitting' % (key_, mx), sp=f.bodies[d]['sp'], detail={'guards': [show(x['cond']) for x in g]})
    rep.floor('AML constructors with a production', n, 52)
    # operand enums: every variant carries the value the grammar assigns (region spaces, field access/lock/update, cacheability)
    import options as OPT
    for path, variants in sorted(OPT.ENUMS.items()):
        if not path.startswith('aml::'): continue
        adt = f.adt(path)
        if not adt: rep.ob('anchor', path, False, 'enum %s not found' % path); continue
        got = {v['name']: v['discr'] for v in adt['variants']}
        for vn, val in variants.items():
            rep.ob('operand-enum', '%s::%s' % (path, vn), got.get(vn) == val, '%s::%s encodes as %s, the grammar assigns %s' % (path, vn, got.get(vn), val), sp=adt['sp'], detail={'value': got.get(vn), 'specified': val})
        for vn in sorted(set(got) - set(variants)):
            xv = OPT.extra_value(path, vn)
            if xv is not None:
                rep.ob('operand-enum', '%s::%s' % (path, vn), got[vn] == xv, '%s::%s encodes as %s, the grammar assigns %s' % (path, vn, got[vn], xv), sp=adt['sp'], detail={'value': got[vn], 'specified': xv}); continue
            rep.ob('operand-enum', '%s::%s' % (path, vn), False, 'variant %s::%s (value %s) has no value in the specification table: add it to spec/options.py after checking the ACPI value' % (path, vn, got[vn]), sp=adt['sp'])
    # framing: the lengths written into PkgLength fields are measured by delivering the children to in-crate sinks, and the
    # productions above model an opaque child as "its bytes"; that is exact only if every in-crate sink accounts for
    # each of the five entry points as the same bytes (the clause of C14 this property rests on)
    from rules.C14 import in_crate_sinks
    in_crate_sinks(f, rep, rule='framing-sink', floor=False)
    rep.extra['unspecified_types'] = unspecified
