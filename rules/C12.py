"""C12 - locality matrices hold, per cell, the last value assigned to that cell.

Index analysis on symbolic states.  HMAT latency/bandwidth: the constructor allocates
initiators x targets cells filled with 0xFFFF and `set_entry_value(i, j, v)` performs exactly one
store whose index normalises to  i * len(targets) + j  (row-major, stride = number of targets);
with the bound lemma  i < I and j < T  =>  i*T + j < I*T = len(entries)  every in-range pair is
accepted, and distinct pairs address distinct cells.  SLIT: `set_distance(a, b, v)` stores v at
a + N*b and at its mirror b + N*a and nowhere else; the constructor fills N*N cells with 10.  Both
serialisers emit the cells in index order.  "Last value wins / no other cell disturbed" then follows
from element-store semantics of Vec (axiom); the SLIT checksum clause is C01's set_distance
obligation."""
from sym import *
import sym
from model import *
from emit import emission
from evalr import SeqV, StructV, RefV, Cell

LEVEL = 'other'
RULE = 'store-index normal form vs row-major specification; constructor fill; emission order'
TRUSTED = ['Vec element store semantics (a[i] = v changes cell i only)']
ASSUMPTIONS = ['num_initiators * num_targets and localities * localities do not overflow (C18 sites)']
EXPLANATION = __doc__

def run(ctx, rep):
    f = ctx.facts
    hmat(f, rep); slit(f, rep)

def hmat(f, rep):
    ty = 'hmat::SystemLocality'
    fs = fns_of(f, ty)
    for n in ('new', 'set_entry_value', 'set_initiator_value', 'set_target_value'):
        rep.ob('anchor', ty + '::' + n, n in fs, 'not found')
    if not all(n in fs for n in ('new', 'set_entry_value')): return
    I = new_interp(f)
    args = sym_args(I, fs['new'])
    st = run_fn(I, fs['new']['def'], args); rep.analysed.add(fs['new']['def'])
    if I.tops or not isinstance(st, StructV): rep.undecided('fill', ty + '::new', I.tops, fs['new']['sp'])
    else:
        ni, nt = ('a', 'num_initiators'), ('a', 'num_targets')
        e = st.fields['entries']; ini = st.fields['initiators']; tg = st.fields['targets']
        ok = e.segs == [('fill', mul(ni, nt), C(0xffff))] and ini.segs == [('fill', ni, ZERO)] and tg.segs == [('fill', nt, ZERO)]
        rep.ob('fill', ty + '::new', ok, 'constructor must allocate I x T cells of 0xFFFF and I/T zeroed domain lists: entries=%r' % (e,), sp=fs['new']['sp'],
               detail={'entries': repr(e), 'initiators': repr(ini), 'targets': repr(tg)})
    I = new_interp(f)
    sv = I.sym_value(ty, 'self')
    args = [I.sym_value(norm_ty(t), n) for n, t in params_of(fs['set_entry_value'])[1:]]
    run_fn(I, fs['set_entry_value']['def'], [RefV(Cell(sv), True)] + args); rep.analysed.add(fs['set_entry_value']['def'])
    if I.tops: rep.undecided('index', ty + '::set_entry_value', I.tops, fs['set_entry_value']['sp'])
    else:
        stores = sv.fields['entries'].stores
        i, j, v = ('a', 'initiator_idx'), ('a', 'target_idx'), ('a', 'value')
        T = ('len', ('a', 'self.targets'))
        want = add(mul(i, T), j)
        ok = len(stores) == 1 and stores[0][1] == v and equal(stores[0][0], want)[0]
        rep.ob('index', ty + '::set_entry_value', ok, 'cell (i, j) is stored at index %s; row-major with stride = number of targets is %s' % (show(stores[0][0]) if stores else None, show(want)),
               sp=fs['set_entry_value']['sp'], detail={'index': show(stores[0][0]) if stores else None, 'specified': show(want)})
        others = [k for k, fv in sv.fields.items() if k != 'entries' and repr(fv) != repr(I.sym_value(ty, 'self').fields[k])]
        rep.ob('isolation', ty + '::set_entry_value', not others, 'set_entry_value also changes %s' % others, sp=fs['set_entry_value']['sp'])
    for nm, fld in (('set_initiator_value', 'initiators'), ('set_target_value', 'targets')):
        if nm not in fs: continue
        I = new_interp(f); sv = I.sym_value(ty, 'self')
        args = [I.sym_value(norm_ty(t), n) for n, t in params_of(fs[nm])[1:]]
        run_fn(I, fs[nm]['def'], [RefV(Cell(sv), True)] + args); rep.analysed.add(fs[nm]['def'])
        st_ = sv.fields[fld].stores
        ok = not I.tops and len(st_) == 1 and st_[0] == (('a', 'idx'), ('a', 'value')) and not sv.fields['entries'].stores
        rep.ob('index', ty + '::' + nm, ok, '%s must store value at idx of %s only' % (nm, fld), sp=fs[nm]['sp'])
    # emission: initiators, targets, then entries in index order
    segs, Ie, _ = emission(f, ty); rep.analysed.add(f.method('Aml', ty, 'to_aml_bytes'))
    tail = segs[-3:]
    def rep_of(s, vec, w): return s[0] == 'rep' and s[1] == ('len', ('a', 'self.' + vec)) and len(s[3]) == 1 and s[3][0][0] == 'int' and s[3][0][2] == w and s[3][0][1] == ('a', 'self.%s[i]' % vec)
    ok = not Ie.tops and len(tail) == 3 and rep_of(tail[0], 'initiators', 4) and rep_of(tail[1], 'targets', 4) and rep_of(tail[2], 'entries', 2)
    rep.ob('emission-order', ty, ok, 'the matrix is not emitted as initiators, targets, then cells in index order: %s' % show_segs(tail), detail={'tail': show_segs(tail)})
    # no other writer of the three vectors
    from rules.C01 import writers_of
    ws = writers_of(f, ty)
    allowed = {fs[n]['def'] for n in fs if n in ('new', 'set_entry_value', 'set_initiator_value', 'set_target_value', 'non_sequential_transfers', 'minimum_transfer_size_required')}
    rep.ob('isolation', ty + ':writers', ws <= allowed, 'other functions write the matrix: %s' % sorted(ws - allowed))

def slit(f, rep, with_checksum=True):
    ty = 'slit::SLIT'
    fs = fns_of(f, ty)
    if 'new' not in fs or 'set_distance' not in fs: rep.ob('anchor', ty, False, 'SLIT::new/set_distance not found'); return
    I = new_interp(f)
    st = run_fn(I, fs['new']['def'], sym_args(I, fs['new'])); rep.analysed.add(fs['new']['def'])
    N = ('a', 'localities')
    if I.tops or not isinstance(st, StructV): rep.undecided('fill', ty + '::new', I.tops, fs['new']['sp'])
    else:
        e = st.fields['entries']
        total = seqlen(e.segs)
        ok = equal(total, mul(N, N))[0] and st.fields['localities'] == N
        body_ok = all(s[0] in ('rep', 'cond') for s in e.segs)
        flat_ok = equal(S_of(e.segs), scale(mul(N, N), 10))[0]
        rep.ob('fill', ty + '::new', ok and flat_ok, 'constructor must allocate N*N cells of 10: %r' % (e,), sp=fs['new']['sp'], detail={'entries': repr(e), 'cells': show(total)})
    I = new_interp(f)
    sv = I.sym_value(ty, 'self')
    args = [I.sym_value(norm_ty(t), n) for n, t in params_of(fs['set_distance'])[1:]]
    run_fn(I, fs['set_distance']['def'], [RefV(Cell(sv), True)] + args); rep.analysed.update([fs['set_distance']['def']] + I.calls_seen)
    if I.tops: rep.undecided('index', ty + '::set_distance', I.tops, fs['set_distance']['sp']); return
    a, b, v = ('a', 'domain_a'), ('a', 'domain_b'), ('a', 'locality_value')
    Ls = ('a', 'self.localities')
    stores = sv.fields['entries'].stores
    want = {show(add(a, mul(Ls, b))), show(add(b, mul(Ls, a)))}
    got = {show(strip_trunc(i)) for i, _ in stores}
    ok = len(stores) == 2 and got == want and all(val == v for _, val in stores)
    rep.ob('index', ty + '::set_distance', ok, 'set_distance stores at %s; specified: the cell and its mirror %s' % (sorted(got), sorted(want)), sp=fs['set_distance']['sp'],
           detail={'indices': sorted(got), 'specified': sorted(want)})
    rep.ob('isolation', ty + '::set_distance', sv.fields['localities'] == Ls, 'set_distance changes the matrix dimension', sp=fs['set_distance']['sp'])
    # the checksum clause of the property: the SLIT's ledger obligations (shared with C01)
    import rules.C01 as C01
    from tables import Table
    if with_checksum: C01.table_obligations(f, rep, Table(f, ty, ['header']))
    segs, Ie, _ = emission(f, ty); rep.analysed.add(f.method('Aml', ty, 'to_aml_bytes'))
    ok = not Ie.tops and segs[-1] == ('raw', ('a', 'self.entries'), ('len', ('a', 'self.entries'))) and segs[-2] == ('int', Ls, 8)
    rep.ob('emission-order', ty, ok, 'SLIT must emit the 64-bit locality count and then the cells in index order: %s' % show_segs(segs[-2:]), detail={'tail': show_segs(segs[-2:])})
