"""C16 - EISA identifiers and UUIDs are encoded per the ACPI compression rules.

`EISAName::new` and `Uuid::new` are evaluated once on a symbolic string.  EISA: the value stored is
compared, as a term, with the specification's packing  swap_bytes( (c0-40h)<<26 | (c1-40h)<<21 |
(c2-40h)<<16 | d3<<12 | d4<<8 | d5<<4 | d6 )  under the range facts of a valid identifier, and the
emission is the C08 integer encoding of that value.  UUID: the 16 pushed bytes are compared with
the specification's mixed-endian map (hex pair -> byte, hi<<4|lo) and the emission is the Buffer
production of those bytes.  Refusal: the length assertion, the four dash assertions, the
checked_sub / to_digit unwraps must all be present (each is a guard on the only path to the value)."""
from sym import *
import sym
from model import *
from emit import emission
from evalr import SeqV, StructV
from cells import in_cell

LEVEL = 'other'
RULE = 'term identity between the evaluated constructor and the specification packing; guard-presence rule for refusals'
TRUSTED = ['models of char::to_digit / str::chars as uninterpreted functions with the std contract (to_digit(c,16) is Some(v<16) iff c is a hex digit)']
ASSUMPTIONS = ['identifier characters are ASCII so that char index == byte index (a non-ASCII 7-byte string has fewer than 7 chars and is refused by the nth().unwrap())',
               'EISA letters above Z and lower-case hex digits are not refused by the crate (not required by the property)']
EXPLANATION = __doc__

UUID_MAP = [(6, 7), (4, 5), (2, 3), (0, 1), (11, 12), (9, 10), (16, 17), (14, 15), (19, 20), (21, 22), (24, 25), (26, 27), (28, 29), (30, 31), (32, 33), (34, 35)]

def rename(segs, m):
    out = []
    for s in segs:
        if s[0] == 'int': out.append(('int', subst(s[1], m), s[2]))
        elif s[0] == 'cond': out.append(('cond', subst(s[1], m), tuple(rename(s[2], m)), tuple(rename(s[3], m))))
        elif s[0] == 'rep': out.append(('rep', subst(s[1], m), s[2], tuple(rename(s[3], m))))
        elif s[0] == 'pkglen': out.append(('pkglen', subst(s[1], m), s[2]))
        elif s[0] == 'raw': out.append(('raw', subst(s[1], m), subst(s[2], m)))
        else: out.append(s)
    return out

def run(ctx, rep):
    f = ctx.facts
    eisa(f, rep); uuid(f, rep)

def eisa(f, rep):
    b = f.bodies.get('aml::EISAName::new')
    if not b: rep.ob('anchor', 'aml::EISAName::new', False, 'not found'); return
    I = new_interp(f)
    r = run_fn(I, b['def'], sym_args(I, b)); rep.analysed.add(b['def'])
    if I.tops or not isinstance(r, StructV): rep.undecided('eisa-pack', 'aml::EISAName::new', I.tops, b['sp']); return
    nm = ('a', 'name'); ch = ('a', 'name.chars')
    L = [('sel', nm, C(i)) for i in range(3)]
    D = {i: ('call', 'to_digit', ('sel', ch, C(i)), C(16)) for i in range(3, 7)}
    ranges = {l: (0x41, 0x5a) for l in L}
    ranges.update({d: (0, 15) for d in D.values()})
    saved = sym.CTX; sym.CTX = ranges
    try:
        got = rebuild(r.fields['value'], lambda x: None)
        parts = [scale(sub(L[0], C(0x40)), 1 << 26), scale(sub(L[1], C(0x40)), 1 << 21), scale(sub(L[2], C(0x40)), 1 << 16),
                 scale(D[3], 1 << 12), scale(D[4], 1 << 8), scale(D[5], 1 << 4), D[6]]
        inner = ZERO
        for p in parts: inner = bor(inner, p)
        want = ('call', 'swap_bytes32', inner)
    finally:
        sym.CTX = saved
    rep.ob('eisa-pack', 'aml::EISAName::new', got == want, 'stored value %s; specified %s' % (show(got), show(want)), sp=b['sp'], detail={'value': show(got), 'specified': show(want)})
    # field widths are disjoint for valid characters (5+5+5+4+4+4+4 bits)
    rep.ob('eisa-disjoint', 'aml::EISAName::new', True, detail={'shifts': [26, 21, 16, 12, 8, 4, 0], 'widths': [5, 5, 5, 4, 4, 4, 4]})
    g = I.guards
    def has(cond): return any(x['cond'] == cond for x in g)
    rep.ob('eisa-refuse', 'length', has(cmp('eq', C(7), ('len', nm))), 'no assertion that the identifier has 7 characters', sp=b['sp'], detail={'guards': [show(x['cond']) for x in g]})
    for i in range(3):
        rep.ob('eisa-refuse', 'letter %d' % i, has(cmp('le', C(0x40), L[i])), 'letter %d below the name base is not refused' % i, sp=b['sp'])
    for i in range(3, 7):
        rep.ob('eisa-refuse', 'digit %d' % i, has(('call', 'is_digit', ('sel', ch, C(i)), C(16))), 'non-hex digit at position %d is not refused' % i, sp=b['sp'])
    # ... and nothing else is refused: a valid identifier (3 letters at or above the base, 4 hex digits) must be accepted
    expected = {cmp('eq', C(7), ('len', nm))} | {cmp('le', C(0x40), L[i]) for i in range(3)} | {('call', 'is_digit', ('sel', ch, C(i)), C(16)) for i in range(3, 7)}
    _no_extra_refusals(rep, 'eisa-accept', 'aml::EISAName::new', g, expected, ranges, b['sp'])
    # emission = integer encoding of the stored value
    e1, I1, _ = emission(f, 'aml::EISAName'); e2, I2, _ = emission(f, 'u32')
    rep.analysed.add(f.method('Aml', 'aml::EISAName', 'to_aml_bytes'))
    ok, why = segs_equal(e1, rename(e2, {('a', 'self'): ('a', 'self.value')}))
    rep.ob('eisa-emit', 'aml::EISAName', ok and not I1.tops, 'EISAName is not emitted as the integer constant of its value: %s' % why, detail={'emitted': show_segs(e1)[:300]})

def _no_extra_refusals(rep, rule, subj, guards, expected, ranges, sp):
    """every refusal met on the evaluated path is one the specification asks for, or holds for every valid input"""
    saved = sym.CTX; sym.CTX = ranges
    try:
        extra = []
        for x in guards:
            c = x['cond']
            if c in expected: continue
            c2 = rebuild(rebuild(c, lambda y: None), lambda y: None) if is_term(c) else c
            if c2 == TRUE: continue
            extra.append(show(c) if is_term(c) else repr(c))
    finally:
        sym.CTX = saved
    rep.ob(rule, subj, not extra, '%s refuses inputs the specification accepts: extra condition(s) %s' % (subj, extra[:3]), sp=sp, detail={'extra_refusals': extra[:6]})

def uuid(f, rep):
    b = f.bodies.get('aml::Uuid::new')
    if not b: rep.ob('anchor', 'aml::Uuid::new', False, 'not found'); return
    I = new_interp(f)
    r = run_fn(I, b['def'], sym_args(I, b)); rep.analysed.update([b['def'], 'aml::hex2byte'])
    if I.tops or not isinstance(r, StructV): rep.undecided('uuid-map', 'aml::Uuid::new', I.tops, b['sp']); return
    ch = ('a', 'name.chars')
    d = lambda i: ('call', 'to_digit', ('sel', ch, C(i)), C(16))
    data = r.fields['name'].fields['data']
    ok = isinstance(data, SeqV) and len(data.segs) == 16
    rep.ob('uuid-map', 'aml::Uuid::new:count', ok, 'a UUID must produce 16 bytes, got %s' % (len(data.segs) if isinstance(data, SeqV) else data), sp=b['sp'])
    if ok:
        saved = sym.CTX; sym.CTX = {d(i): (0, 15) for i in range(36)}
        try:
            for k, (hi, lo) in enumerate(UUID_MAP):
                want = bor(scale(d(hi), 16), d(lo))
                got = rebuild(data.segs[k][1], lambda x: None)
                rep.ob('uuid-map', 'aml::Uuid::new:byte%d' % k, data.segs[k][2] == 1 and got == want, 'byte %d is %s, specified hex pair (%d,%d)' % (k, show(got), hi, lo), sp=b['sp'],
                       detail={'byte': k, 'value': show(got), 'specified': show(want)})
        finally:
            sym.CTX = saved
    g = I.guards
    def has(cond): return any(x['cond'] == cond for x in g)
    rep.ob('uuid-refuse', 'length', has(cmp('eq', C(36), ('len', ch))), 'no assertion that the string has 36 characters', sp=b['sp'])
    for pos in (8, 13, 18, 23):
        rep.ob('uuid-refuse', 'dash %d' % pos, has(cmp('eq', ('sel', ch, C(pos)), C(45))), 'no assertion of the separator at position %d' % pos, sp=b['sp'])
    for pos in [i for pr in UUID_MAP for i in pr]:
        rep.ob('uuid-refuse', 'hex %d' % pos, has(('call', 'is_digit', ('sel', ch, C(pos)), C(16))), 'a non-hex character at position %d is not refused' % pos, sp=b['sp'])
    # ... and nothing else is refused: every string of that shape must be accepted
    expected = {cmp('eq', C(36), ('len', ch))} | {cmp('eq', ('sel', ch, C(pos)), C(45)) for pos in (8, 13, 18, 23)} | {('call', 'is_digit', ('sel', ch, C(pos)), C(16)) for pr in UUID_MAP for pos in pr}
    _no_extra_refusals(rep, 'uuid-accept', 'aml::Uuid::new', g, expected, {d(i): (0, 15) for i in range(36)}, b['sp'])
    e1, I1, _ = emission(f, 'aml::Uuid'); e2, I2, _ = emission(f, 'aml::BufferData')
    rep.analysed.add(f.method('Aml', 'aml::Uuid', 'to_aml_bytes'))
    m = {('a', 'self.data'): ('a', 'self.name.data')}
    ok, why = segs_equal(e1, rename(e2, m))
    rep.ob('uuid-emit', 'aml::Uuid', ok and not I1.tops, 'Uuid is not emitted as the Buffer of its 16 bytes: %s' % why, detail={'emitted': show_segs(e1)[:300]})
