"""C16 - EISA identifiers and UUIDs are encoded per the ACPI compression rules.

`EISAName::new` and `Uuid::new` are evaluated once on a symbolic string, whose characters are its bytes (ASCII
assumption, stated below) and whose hexadecimal digits are interpreted (48..57, 65..70, 97..102).  EISA: the value
stored is compared with the specification's packing  swap_bytes( (c0-40h)<<26 | (c1-40h)<<21 | (c2-40h)<<16 |
d3<<12 | d4<<8 | d5<<4 | d6 )  field by field (each packed field depends on one character) under the refusals
met, and the emission is the C08 integer encoding of that value.  UUID: the 16 stored bytes are compared with the
specification's mixed-endian map (hex pair -> byte, hi<<4|lo) and the emission is the Buffer production of those
bytes.  Refusal: the length condition, the four dash conditions and, per character, the letter / hex-digit
condition must each be among the refusals met (compared as conditions, however they are written), and every
refusal met must be one of these, hold for all valid inputs, or only exclude non-ASCII strings."""
from sym import *
import sym
from model import *
from emit import emission
from evalr import SeqV, StructV
from cells import in_cell

LEVEL = 'other'
RULE = 'evaluated constructor vs the specification packing, compared field by field by the decision procedure over the string bytes; refusals compared as conditions (required ones present, no others)'
TRUSTED = ['model of char::to_digit(16) as the ASCII hexadecimal digit value (std contract)', 'spec/aml.py integer and Buffer productions (C08, C06)']
ASSUMPTIONS = ['identifier characters are ASCII so that char index == byte index (a non-ASCII string of the required byte length has fewer characters and is refused by the nth().unwrap() / length assertion of the crate)',
               'EISA letters above Z and lower-case hex digits are not refused by the crate (not required by the property)']
EXPLANATION = __doc__

UUID_MAP = [(6, 7), (4, 5), (2, 3), (0, 1), (11, 12), (9, 10), (16, 17), (14, 15), (19, 20), (21, 22), (24, 25), (26, 27), (28, 29), (30, 31), (32, 33), (34, 35)]

def rename(segs, m):
    out = []
    for s in segs:
        if s[0] == 'int': out.append(('int', subst(s[1], m), s[2]))
        elif s[0] == 'cond': out.append(('cond', subst(s[1], m), tuple(rename(s[2], m)), tuple(rename(s[3], m))))
        elif s[0] == 'rep': out.append(('rep', subst(s[1], m), s[2], tuple(rename(s[3], m))))
        elif s[0] == 'pkglen': out.append(('pkglen', subst(s[1], m), s[2]))
        elif s[0] == 'raw': out.append(('raw', subst(s[1], m), subst(s[2], m)))
        else: out.append(s)
    return out

def run(ctx, rep):
    f = ctx.facts
    eisa(f, rep); uuid(f, rep)

def _refused(g, cond):
    """some refusal met is exactly `cond` (as a condition over the input, however it is written)"""
    want = ite(cond, ONE, ZERO)
    return any(x['cond'] == cond or (is_term(x['cond']) and len(cond_atoms(ite(x['cond'], ONE, ZERO))) <= 8 and equal(ite(x['cond'], ONE, ZERO), want)[0]) for x in g)

def eisa(f, rep):
    b = f.bodies.get('aml::EISAName::new')
    if not b: rep.ob('anchor', 'aml::EISAName::new', False, 'not found'); return
    I = new_interp(f)
    r = run_fn(I, b['def'], sym_args(I, b)); rep.analysed.add(b['def'])
    if I.tops or not isinstance(r, StructV): rep.undecided('eisa-pack', 'aml::EISAName::new', I.tops, b['sp']); return
    nm = ('a', 'name')
    sym.SEL_RANGE[nm] = (0, 255)
    L = [('sel', nm, C(i)) for i in range(7)]
    D = {i: hexval(L[i]) for i in range(3, 7)}
    ranges = {l: (0x41, 0x5a) for l in L[:3]}
    saved = sym.CTX; sym.CTX = ranges
    try:
        got = rebuild(r.fields['value'], lambda x: None)
        parts = [scale(sub(L[0], C(0x40)), 1 << 26), scale(sub(L[1], C(0x40)), 1 << 21), scale(sub(L[2], C(0x40)), 1 << 16),
                 scale(D[3], 1 << 12), scale(D[4], 1 << 8), scale(D[5], 1 << 4), D[6]]
        inner = ZERO
        for p in parts: inner = bor(inner, p)
        want = ('call', 'swap_bytes32', inner)
        # compared field by field (each packed field depends on one character), under the refusals met
        facts = tuple(x['cond'] for x in I.guards if is_term(x['cond']) and not any(u[0] == 'call' for u in subterms(x['cond'])))
        ok = got == want or equal_parts(got, want, facts)[0]
    finally:
        sym.CTX = saved
    rep.ob('eisa-pack', 'aml::EISAName::new', ok, 'stored value %s; specified %s' % (show(got), show(want)), sp=b['sp'], detail={'value': show(got), 'specified': show(want)})
    # field widths are disjoint for valid characters (5+5+5+4+4+4+4 bits)
    rep.ob('eisa-disjoint', 'aml::EISAName::new', True, detail={'shifts': [26, 21, 16, 12, 8, 4, 0], 'widths': [5, 5, 5, 4, 4, 4, 4]})
    g = I.guards
    rep.ob('eisa-refuse', 'length', _refused(g, cmp('eq', C(7), ('len', nm))), 'no assertion that the identifier has 7 characters', sp=b['sp'], detail={'guards': [show(x['cond']) for x in g]})
    for i in range(3):
        rep.ob('eisa-refuse', 'letter %d' % i, _refused(g, cmp('le', C(0x40), L[i])), 'letter %d below the name base is not refused' % i, sp=b['sp'])
    for i in range(3, 7):
        rep.ob('eisa-refuse', 'digit %d' % i, _refused(g, hexcond(L[i])), 'non-hex digit at position %d is not refused' % i, sp=b['sp'])
    # ... and nothing else is refused: a valid identifier (3 letters at or above the base, 4 hex digits) must be accepted
    expected = [cmp('eq', C(7), ('len', nm))] + [cmp('le', C(0x40), L[i]) for i in range(3)] + [hexcond(L[i]) for i in range(3, 7)]
    _no_extra_refusals(rep, 'eisa-accept', 'aml::EISAName::new', g, expected, ranges, b['sp'])
    # emission = integer encoding of the stored value
    e1, I1, _ = emission(f, 'aml::EISAName'); e2, I2, _ = emission(f, 'u32')
    rep.analysed.add(f.method('Aml', 'aml::EISAName', 'to_aml_bytes'))
    ok, why = segs_equal(e1, rename(e2, {('a', 'self'): ('a', 'self.value')}))
    rep.ob('eisa-emit', 'aml::EISAName', ok and not I1.tops, 'EISAName is not emitted as the integer constant of its value: %s' % why, detail={'emitted': show_segs(e1)[:300]})

def _no_extra_refusals(rep, rule, subj, guards, expected, ranges, sp):
    """every refusal met on the evaluated path is one the specification asks for (however it is written), holds for
    every valid input, or only excludes non-ASCII strings (no valid identifier has a non-ASCII character)"""
    saved = sym.CTX; sym.CTX = ranges
    try:
        extra = []
        for x in guards:
            c = x['cond']
            if c in expected: continue
            if is_term(c) and any(u[0] == 'call' and u[1] == 'is_ascii' for u in subterms(c)): continue
            c2 = rebuild(rebuild(c, lambda y: None), lambda y: None) if is_term(c) else c
            if c2 == TRUE: continue
            if is_term(c) and len(cond_atoms(ite(c, ONE, ZERO))) <= 8 and any(equal(ite(c, ONE, ZERO), ite(e_, ONE, ZERO))[0] for e_ in expected): continue
            extra.append(show(c) if is_term(c) else repr(c))
    finally:
        sym.CTX = saved
    rep.ob(rule, subj, not extra, '%s refuses inputs the specification accepts: extra condition(s) %s' % (subj, extra[:3]), sp=sp, detail={'extra_refusals': extra[:6]})

def uuid(f, rep):
    b = f.bodies.get('aml::Uuid::new')
    if not b: rep.ob('anchor', 'aml::Uuid::new', False, 'not found'); return
    I = new_interp(f)
    r = run_fn(I, b['def'], sym_args(I, b)); rep.analysed.update([b['def'], 'aml::hex2byte'] if 'aml::hex2byte' in f.bodies else [b['def']])
    if I.tops or not isinstance(r, StructV): rep.undecided('uuid-map', 'aml::Uuid::new', I.tops, b['sp']); return
    ch = ('a', 'name')
    sym.SEL_RANGE[ch] = (0, 255)
    d = lambda i: hexval(('sel', ch, C(i)))
    data = r.fields['name'].fields['data']
    ok = isinstance(data, SeqV) and len(data.segs) == 16
    rep.ob('uuid-map', 'aml::Uuid::new:count', ok, 'a UUID must produce 16 bytes, got %s' % (len(data.segs) if isinstance(data, SeqV) else data), sp=b['sp'])
    if ok:
        facts = tuple(x['cond'] for x in I.guards if is_term(x['cond']) and not any(u[0] == 'call' for u in subterms(x['cond'])))
        for k, (hi, lo) in enumerate(UUID_MAP):
            want = bor(scale(d(hi), 16), d(lo))
            got = rebuild(data.segs[k][1], lambda x: None)
            okb = data.segs[k][2] == 1 and (got == want or equal_parts(strip_trunc(got), want, tuple(c_ for c_ in facts if any(u == ('sel', ch, C(hi)) or u == ('sel', ch, C(lo)) for u in subterms(c_))))[0])
            rep.ob('uuid-map', 'aml::Uuid::new:byte%d' % k, okb, 'byte %d is %s, specified hex pair (%d,%d)' % (k, show(got), hi, lo), sp=b['sp'],
                   detail={'byte': k, 'value': show(got), 'specified': show(want)})
    g = I.guards
    rep.ob('uuid-refuse', 'length', _refused(g, cmp('eq', C(36), ('len', ch))), 'no assertion that the string has 36 characters', sp=b['sp'])
    for pos in (8, 13, 18, 23):
        rep.ob('uuid-refuse', 'dash %d' % pos, _refused(g, cmp('eq', ('sel', ch, C(pos)), C(45))), 'no assertion of the separator at position %d' % pos, sp=b['sp'])
    for pos in [i for pr in UUID_MAP for i in pr]:
        rep.ob('uuid-refuse', 'hex %d' % pos, _refused(g, hexcond(('sel', ch, C(pos)))), 'a non-hex character at position %d is not refused' % pos, sp=b['sp'])
    # ... and nothing else is refused: every string of that shape must be accepted
    expected = [cmp('eq', C(36), ('len', ch))] + [cmp('eq', ('sel', ch, C(pos)), C(45)) for pos in (8, 13, 18, 23)] + [hexcond(('sel', ch, C(pos))) for pr in UUID_MAP for pos in pr]
    _no_extra_refusals(rep, 'uuid-accept', 'aml::Uuid::new', g, expected, {}, b['sp'])
    e1, I1, _ = emission(f, 'aml::Uuid'); e2, I2, _ = emission(f, 'aml::BufferData')
    rep.analysed.add(f.method('Aml', 'aml::Uuid', 'to_aml_bytes'))
    m = {('a', 'self.data'): ('a', 'self.name.data')}
    ok, why = segs_equal(e1, rename(e2, m))
    rep.ob('uuid-emit', 'aml::Uuid', ok and not I1.tops, 'Uuid is not emitted as the Buffer of its 16 bytes: %s' % why, detail={'emitted': show_segs(e1)[:300]})
