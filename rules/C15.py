"""C15 - alternative construction paths for the same object emit identical bytes.

* `Scope::raw`: abstract evaluation yields a byte vector with two interval writes (copy_within and
  copy_from_slice) on top of the appended bytes; the interval-write analysis (Lin endpoints, decided
  under n >= 1 and prefix width m >= 1) resolves it to  [ScopeOp] ++ PkgLength(n-1, inclusive) ++ path
  ++ children, for every prefix width m symbolically - hence on both sides of every PkgLength width
  boundary - and this equals the shape of `impl Aml for Scope` with the children taken as one byte string.
* `PackageBuilder`: `new` is (no bytes, 0 elements); `add_element` appends exactly one serialisation
  and adds 1 to the counter; its emission equals Package's under (bytes = concatenated children,
  counter = number of children).
* `&str`/`String` and `usize`/`u64` have identical emission shapes."""
from sym import *
import sym
from model import *
from emit import emission
from evalr import SeqV, StructV, DynV, RefV, Cell
from rules.C16 import rename

LEVEL = 'proof'
RULE = 'interval-write resolution with symbolic endpoints; effect summaries of the builder; emission-shape identity'
TRUSTED = ['slice::copy_within / copy_from_slice / Vec::resize modelled as interval writes (std contract)']
ASSUMPTIONS = ['children bytes handed to Scope::raw are the concatenated serialisations of the children (that is the premise of the property)']
EXPLANATION = __doc__

def run(ctx, rep):
    f = ctx.facts
    scope_raw(f, rep); package_builder(f, rep); aliases(f, rep)

def boundaries(segs):
    out = [ZERO]
    for s in segs: out.append(add(out[-1], seglen(s)))
    return out

def slice_on_boundaries(segs, lo, hi, facts):
    bs = boundaries(segs)
    i = next((k for k, b in enumerate(bs) if equal(b, lo, facts)[0]), None)
    j = next((k for k, b in enumerate(bs) if equal(b, hi, facts)[0]), None)
    if i is None or j is None or j < i: return None
    return segs[i:j]

def scope_raw(f, rep):
    name = "aml::Scope::<'a>::raw"
    b = f.bodies.get(name)
    if not b: rep.ob('anchor', name, False, 'Scope::raw not found'); return
    I = new_interp(f)
    args = sym_args(I, b)
    r = run_fn(I, name, args); rep.analysed.add(name)
    if I.tops or not isinstance(r, SeqV): rep.undecided('interval-writes', name, I.tops, b['sp']); return
    base = list(r.segs); stores = list(r.stores)
    if not stores:
        # built by plain concatenation: the vector's own segments are the result, nothing to re-assemble
        rep.info.append({'Scope::raw': 'no in-place writes; result compared directly'})
        return _scope_agree(f, rep, b, list(base), [])
    ok = len(stores) == 2 and stores[0][0][0] == 'within' and stores[1][0][0] == 'range'
    if not ok:
        rep.undecided('interval-writes', name + ':shape', [('in-place writes other than one copy_within followed by one copy_from_slice: %r' % ([s[0][0] for s in stores],), b['sp'])], b['sp']); return
    rep.ob('interval-writes', name + ':shape', ok, 'expected one copy_within and one copy_from_slice on the resized vector, got %r' % ([s[0][0] for s in stores],), sp=b['sp'])
    (_, s_lo, s_hi, dest), _ = stores[0]
    (_, w_lo, w_hi), P = stores[1]
    total = seqlen(base)
    m = seqlen(list(P))
    # facts: the prefix has at least one byte; n >= 1 because ScopeOp was pushed first
    sym.CALL_RANGE[m] = (1, 4) if m[0] == 'call' else sym.CALL_RANGE.get(m, (0, sym.BIG))
    n = s_hi
    facts = [cmp('le', ONE, m), cmp('le', ONE, n)]
    w1_lo, w1_hi = dest, add(dest, sub(s_hi, s_lo))          # [m+1, m+n) <- old[1, n)
    checks = {
        'W2 starts right after the opcode': equal(w_lo, ONE, facts)[0],
        'W2 is exactly as long as the prefix': equal(sub(w_hi, w_lo), m, facts)[0],
        'W1 starts where W2 ends': equal(w1_lo, w_hi, facts)[0],
        'W1 ends at the end of the vector': equal(w1_hi, total, facts)[0],
        'source of W1 starts right after the opcode': equal(s_lo, ONE, facts)[0],
    }
    for k, v in checks.items():
        rep.ob('interval-writes', name + ':' + k, v, 'interval-write obligation failed: ' + k, sp=b['sp'],
               detail={'W1': [show(w1_lo), show(w1_hi)], 'W2': [show(w_lo), show(w_hi)], 'src': [show(s_lo), show(s_hi)], 'total': show(total)})
    if not all(checks.values()): return
    old_tail = slice_on_boundaries(base, s_lo, s_hi, facts)
    head = slice_on_boundaries(base, ZERO, ONE, facts)
    rep.ob('interval-writes', name + ':source-on-segment-boundaries', old_tail is not None and head is not None, 'the moved range does not coincide with appended pieces', sp=b['sp'])
    if old_tail is None or head is None: return
    result = head + list(P) + old_tail
    _scope_agree(f, rep, b, result, facts)

def _scope_agree(f, rep, b, result, facts):
    # reference: impl Aml for Scope with children as one byte string X
    I2 = new_interp(f)
    cb = fns_of(f, 'aml::Scope')['new']
    a2 = sym_args(I2, cb)
    obj = run_fn(I2, cb['def'], a2)
    ref = emit_value(I2, obj, "aml::Scope<'_>")
    X = ('a', 'children'); lenX = ('len', X)
    def absx(segs):
        out = []
        for s in segs:
            if s[0] == 'rep' and s[3] == (('opaque', ('a', 'children[i]')),): out.append(('raw', X, lenX))
            elif s[0] == 'pkglen':
                out.append(('pkglen', rebuild(s[1], lambda x: lenX if (x[0] == 'Ssum') else None), s[2]))
            else: out.append(s)
        return out
    ok, why = segs_equal(result, absx(ref), facts)
    rep.ob('paths-agree', 'Scope::raw == impl Aml for Scope', ok, 'Scope::raw builds %s but Scope emits %s: %s' % (show_segs(result)[:200], show_segs(absx(ref))[:200], why), sp=b['sp'],
           detail={'raw': show_segs(result), 'object': show_segs(absx(ref))})

def package_builder(f, rep):
    ty = 'aml::PackageBuilder'
    fs = fns_of(f, ty)
    if 'new' not in fs or 'add_element' not in fs: rep.ob('anchor', ty, False, 'PackageBuilder::new/add_element not found'); return
    I = new_interp(f)
    st = run_fn(I, fs['new']['def'], []); rep.analysed.add(fs['new']['def'])
    ok = isinstance(st, StructV) and isinstance(st.fields['data'], SeqV) and not st.fields['data'].segs and st.fields['elements'] == ZERO
    rep.ob('builder-init', ty + '::new', ok, 'a new builder is not (no bytes, 0 elements): %r' % (st,), sp=fs['new']['sp'])
    I = new_interp(f)
    sv = I.sym_value(ty, 'self')
    aml = DynV(('a', 'aml'))
    run_fn(I, fs['add_element']['def'], [RefV(Cell(sv), True), RefV(Cell(aml))]); rep.analysed.add(fs['add_element']['def'])
    if I.tops: rep.undecided('builder-step', ty + '::add_element', I.tops, fs['add_element']['sp'])
    else:
        d = sv.fields['data']
        ok1 = d.segs == [('raw', ('a', 'self.data'), ('len', ('a', 'self.data'))), ('opaque', ('a', 'aml'))] and not d.stores
        ok2 = equal(sv.fields['elements'], add(('a', 'self.elements'), ONE))[0]
        rep.ob('builder-step', ty + '::add_element:bytes', ok1, 'add_element must append exactly one serialisation of the element: %s' % show_segs(d.segs), sp=fs['add_element']['sp'], detail={'data_after': show_segs(d.segs)})
        rep.ob('builder-step', ty + '::add_element:counter', ok2, 'add_element must add exactly 1 to the element counter: %s' % show(sv.fields['elements']), sp=fs['add_element']['sp'], detail={'elements_after': show(sv.fields['elements'])})
    # other writers of the two fields
    from rules.C01 import writers_of
    ws = writers_of(f, ty)
    allowed = {fs['add_element']['def'], fs['new']['def']} | {d_ for d_ in f.trait_impls.get(('AmlSink', ty), {}).values()} | {d for d, b in f.bodies.items() if b.get('derived')}
    rep.ob('builder-step', ty + ':writers', not (ws - allowed), 'other functions write the builder state: %s' % sorted(ws - allowed), detail={'writers': sorted(ws)})
    # the sink adapter appends in order (byte -> push, vec -> extend)
    for meth, arg, want in (('byte', A('b', 0, 255), [('int', ('a', 'b'), 1)]), ('vec', RefV(Cell(SeqV('u8', [('raw', ('a', 'v'), ('len', ('a', 'v')))]))), [('raw', ('a', 'v'), ('len', ('a', 'v')))])):
        I = new_interp(f); sv = I.sym_value(ty, 'self')
        sym.CTX = I.st.ranges
        I.sink_call(meth, [RefV(Cell(sv), True), arg], {'sp': None}); sym.CTX = {}
        got = sv.fields['data'].segs[1:]
        rep.ob('builder-sink', ty + ' as AmlSink::' + meth, got == want and not I.tops and sv.fields['elements'] == ('a', 'self.elements'), 'sink.%s must append its bytes in order and leave the counter alone: %s' % (meth, show_segs(got)))
    # emission agreement under  data = X (concatenated children), elements = number of children
    e1, I1, _ = emission(f, ty); e2, I2, _ = emission(f, "aml::Package<'_>")
    rep.analysed.update([f.method('Aml', ty, 'to_aml_bytes'), f.method('Aml', "aml::Package<'_>", 'to_aml_bytes')])
    X = ('a', 'self.data'); lenX = ('len', X); nE = ('a', 'self.elements')
    def absx(segs):
        out = []
        for s in segs:
            if s[0] == 'rep' and s[3] == (('opaque', ('a', 'self.children[i]')),): out.append(('raw', X, lenX))
            elif s[0] == 'pkglen': out.append(('pkglen', rebuild(s[1], lambda x: lenX if (x[0] == 'Ssum') else None), s[2]))
            elif s[0] == 'int': out.append(('int', subst(s[1], {('len', ('a', 'self.children')): nE}), s[2]))
            else: out.append(s)
        return out
    ok, why = segs_equal(e1, absx(e2))
    rep.ob('paths-agree', 'PackageBuilder == Package', ok and not I1.tops and not I2.tops, 'emissions differ: %s' % why, detail={'builder': show_segs(e1), 'package': show_segs(absx(e2))})

def aliases(f, rep):
    a, Ia, _ = emission(f, "&'static str"); b, Ib, _ = emission(f, 'alloc::string::String')
    ok, why = segs_equal(a, b)
    rep.ob('paths-agree', '&str == String', ok and not Ia.tops and not Ib.tops, 'borrowed and owned strings differ: %s' % why, detail={'str': show_segs(a), 'String': show_segs(b)})
    a, Ia, _ = emission(f, 'usize', abstract=()); b, Ib, _ = emission(f, 'u64', abstract=())
    ok, why = segs_equal(a, b)
    rep.ob('paths-agree', 'usize == u64', ok and not Ia.tops and not Ib.tops, 'platform-width and 64-bit integers differ: %s' % why, detail={'usize': show_segs(a)[:200]})
    for t in ("&'static str", 'alloc::string::String', 'usize', 'u64'):
        rep.analysed.add(f.method('Aml', t, 'to_aml_bytes'))
