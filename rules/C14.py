"""C14 - output is deterministic and independent of the receiving sink.

Structural rules over the whole crate, each decided from the typed program:
  purity        : no static (mutable or not) is read or written by any function; no ADT holds an
                  interior-mutability cell or atomic; no `unsafe` block exists outside derive expansions;
                  `to_aml_bytes` takes `&self` - so serialisation cannot change or depend on anything but *self
  total model   : every `impl Aml` evaluates in the abstract interpreter with no unknown callee, i.e. the
                  emission is a function of the receiver's fields only (152 shapes)
  obliviousness : every use of a `&mut dyn AmlSink` value is as the receiver of one of the five trait
                  methods or as the sink argument of another serialiser - the sink is never inspected
  sink agreement: the trait's default word/dword/qword/vec reduce to the same bytes delivered one by one
                  through `byte`; every in-crate sink override (Vec<u8>, PackageBuilder, Checksum, Sdt)
                  is an order-preserving append of exactly the bytes given - only the concatenation matters
  raw = serial  : for every crate type that is both IntoBytes and Aml, the emission shape equals the
                  layout bytes of the value (field by field, offsets from rustc)
  u8sum         : the helper equals the byte-sum of the serialised form (C17)."""
from sym import *
import sym
from model import *
from emit import emission
from evalr import SeqV, StructV, EnumV, DynV, RefV, Cell, OuterSink

LEVEL = 'other'
RULE = 'purity/effect rules, sink-use rule, sink-method agreement by abstract evaluation, raw-vs-serialised shape identity'
TRUSTED = ['Rust aliasing rules (&self is not mutated without interior mutability or unsafe)', 'zerocopy::IntoBytes contract (no padding)']
ASSUMPTIONS = ['user-written sinks implement byte() and may override the others consistently (foreign code is out of reach)', 'little-endian target for the two native multi-byte fields listed in evidence']
EXPLANATION = __doc__

SINK_METHODS = ('byte', 'word', 'dword', 'qword', 'vec')
INTERIOR = ('core::cell::', 'core::sync::atomic', 'std::sync', 'std::cell', 'alloc::rc::Rc', 'alloc::sync::Arc')

def in_crate_sinks(f, rep, X=None, rule='sink-agreement', floor=True):
    """every in-crate AmlSink must treat each of the five entry points as delivery of the same bytes, in order.
    Three kinds of sink state are decided: a byte store (the bytes are appended), a byte-sum accumulator
    (the state advances by the sum of the bytes mod 256) and a byte counter (the state advances by the
    number of bytes); Sdt is the byte store that also maintains its header."""
    if X is None: X = {'word': (A('x16', 0, 0xffff), 2), 'dword': (A('x32', 0, 0xffffffff), 4), 'qword': (A('x64', 0, (1 << 64) - 1), 8)}
    from evalr import canon_bytes
    sinks = [s for (t, s) in f.trait_impls if t == 'AmlSink']
    if floor: rep.floor('in-crate sinks', len(sinks), 4)
    for s in sinks:
        ov = f.trait_impls[('AmlSink', s)]
        rep.ob(rule, '%s implements byte' % s, 'byte' in ov, 'sink %s lacks the mandatory method' % s)
        kinds = {}
        if s == 'sdt::Sdt':
            # the generic table: every overridden entry point appends the bytes to the image (length field and checksum are
            # C02's and C01's clauses); the entry points it does not override are the byte-wise defaults decided above
            import sdtsink
            from rules.C13 import folded
            cs = sdtsink.cases(f)
            rep.ob(rule, 'sdt::Sdt overrides byte', any(m == 'byte' for _, m, _ in cs), 'Sdt lacks the mandatory method')
            for label, meth, mk in cs:
                I, sv, old, want = sdtsink.run_case(f, meth, mk)
                for c in I.calls_seen: rep.analysed.add(c)
                subj = '%s as AmlSink::%s' % (s, label)
                if I.tops: rep.undecided(rule, subj, I.tops, None); continue
                sym.CTX = I.st.ranges
                try:
                    facts = [c for c, _ in I.st.facts]
                    nf = folded(sv.fields['data'], facts)
                    ok = nf is not None and segs_equal(nf[0], [('raw', ('a', 'self.data'), old)] + list(want), facts)[0] and all(lo == C(4) and hi == C(8) for lo, hi, _ in nf[1])
                finally:
                    sym.CTX = {}
                rep.ob(rule, subj, ok, 'after %s the table holds %s (writes %s); specified: the old image followed by the bytes delivered'
                       % (label, show_segs(nf[0]) if nf else None, [(show(a), show(b_)) for a, b_, _ in nf[1]] if nf else None), detail={'image': show_segs(nf[0]) if nf else None})
            continue
        for meth in SINK_METHODS:
            I = new_interp(f, abstract=())
            sv = I.sym_value(norm_ty(s), 'self')
            if meth == 'vec':
                arg = RefV(Cell(SeqV('u8', [('raw', ('a', 'v'), ('len', ('a', 'v')))], name='v'))); want = [('raw', ('a', 'v'), ('len', ('a', 'v')))]
            elif meth == 'byte': arg = A('b', 0, 255); want = [('int', arg, 1)]
            else: arg, w = X[meth]; want = [('int', arg, w)]
            sym.CTX = I.st.ranges
            I.sink_call(meth, [RefV(Cell(sv), True), arg], {'sp': None}); sym.CTX = {}
            for c in I.calls_seen: rep.analysed.add(c)
            subj = '%s as AmlSink::%s' % (s, meth)
            if s == 'sdt::Sdt' and meth != 'byte':
                rep.ob(rule, subj, meth not in ov, 'Sdt overrides %s; only its byte-wise default is modelled' % meth); continue
            if I.tops:
                rep.undecided(rule, subj, I.tops, None); continue
            if isinstance(sv, SeqV):
                got = sv.segs[1:]
                ok = norm_segs(got) == want
                rep.ob(rule, subj, ok, '%s stores %s for %s' % (s, show_segs(got), show_segs(want)), detail={'appended': show_segs(got)})
            elif s == 'sdt::Sdt':
                if meth == 'byte':
                    d_ = sv.fields['data']
                    ok = d_.segs[1:] == [('int', ZERO, 1)] and any(st_[0] != C(9) and isinstance(st_[0], tuple) and st_[0][0] == 'range' and st_[1] == (('int', arg, 1),) for st_ in d_.stores)
                    rep.ob(rule, subj, ok, 'Sdt::byte does not append the byte', detail={'stores': len(d_.stores)})
                else:
                    rep.ob(rule, subj, meth not in ov, 'Sdt overrides %s; only its byte-wise default is modelled' % meth)
            elif isinstance(sv, StructV):
                fresh = I.sym_value(norm_ty(s), 'self')
                stores = [k for k, v in sv.fields.items() if isinstance(v, SeqV) and v.is_bytes()]
                ints = [k for k, v in sv.fields.items() if is_term(v)]
                other = [k for k in sv.fields if k not in stores and k not in ints]
                changed_ints = [k for k in ints if sv.fields[k] != fresh.fields[k]]
                grown = [k for k in stores if sv.fields[k].segs[1:] or sv.fields[k].stores]
                if other and any(repr(sv.fields[k]) != repr(fresh.fields[k]) for k in other):
                    rep.undecided(rule, subj, [('sink state of a kind that is not modelled: %s' % other, None)], None); continue
                if len(grown) == 1 and not changed_ints:
                    # byte store: the bytes are appended in order, nothing else moves
                    got = sv.fields[grown[0]].segs[1:]
                    ok = norm_segs(got) == want and not sv.fields[grown[0]].stores
                    kinds[meth] = 'store'
                    rep.ob(rule, subj, ok, '%s stores %s for %s' % (s, show_segs(got), show_segs(want)), detail={'appended': show_segs(got)})
                elif len(changed_ints) == 1 and not grown:
                    k = changed_ints[0]
                    got = sv.fields[k]; old = ('a', 'self.' + k)
                    nbytes = seqlen(want)
                    as_sum = equal(canon_bytes(wrap(got, 256)), canon_bytes(wrap(add(old, S_of(want)), 256)))[0] and rng(got)[1] <= 255
                    as_count = equal(got, add(old, nbytes))[0]
                    kinds[meth] = 'sum' if as_sum else 'count' if as_count else None
                    rep.ob(rule, subj, as_sum or as_count,
                           '%s advances its state `%s` to %s for %s bytes delivered through %s; a byte-sum accumulator advances by the sum of the bytes, a byte counter by their number (%s)'
                           % (s, k, show(got), show(nbytes), meth, show(add(old, nbytes))), detail={'state_after': show(got), 'bytes_delivered': show(nbytes)})
                elif not grown and not changed_ints:
                    rep.ob(rule, subj, False, '%s ignores the bytes delivered through %s' % (s, meth))
                else:
                    rep.undecided(rule, subj, [('sink %s changes several parts of its state (%s): no model' % (s, grown + changed_ints), None)], None)
            else:
                rep.undecided(rule, subj, [('sink of an unmodelled kind: %r' % (sv,), None)], None)
        if kinds:
            ks = set(kinds.values()) - {None}
            rep.ob(rule, '%s: one kind of state' % s, len(ks) <= 1, 'the entry points of %s disagree on what the sink accumulates: %s' % (s, kinds))


def run(ctx, rep):
    _run(ctx, rep)
    if ctx.tier == 'thorough':
        import witness
        witness.check(rep, ctx, ['C14SerialiserCannotMutate'])

def _run(ctx, rep):
    f = ctx.facts
    # ---------------- purity
    rep.ob('purity', 'no statics', not f.statics, 'the crate defines statics: %s' % [s['path'] for s in f.statics])
    uses = []
    unsafe_blocks = []
    def walk(x, d):
        if isinstance(x, dict):
            if x.get('k') == 'Static': uses.append((d, x.get('path')))
            if x.get('unsafe') and not (x.get('unsafe_mac') and any('derive' in m for m in x['unsafe_mac'])): unsafe_blocks.append((d, x.get('unsafe_sp')))
            for v in x.values(): walk(v, d)
        elif isinstance(x, list):
            for v in x: walk(v, d)
    for d, b in f.bodies.items():
        if b.get('body') is not None: walk(b['body'], d)
    rep.ob('purity', 'no static is referenced', not uses, 'functions reference statics: %s' % uses[:5])
    rep.ob('purity', 'no unsafe outside derives', not unsafe_blocks, 'unsafe blocks in hand-written code: %s' % unsafe_blocks[:5])
    bad = []
    for p, a in f.adts.items():
        for v in a['variants']:
            for fd in v['fields']:
                if any(k in fd['ty'] for k in INTERIOR): bad.append((p, fd['name'], fd['ty']))
    rep.ob('purity', 'no interior mutability in any type', not bad, 'fields with interior mutability: %s' % bad[:5])
    n_impl = 0; n_self_ref = 0
    for st, im in f.impls_of('Aml'):
        d = f.method('Aml', st, 'to_aml_bytes'); b = f.bodies[d]; n_impl += 1
        rep.analysed.add(d)
        ps = b['params']
        ok = len(ps) == 2 and ps[0].get('self_kind') in ('RefImm',) or norm_ty(ps[0]['ty']).startswith('&') and not norm_ty(ps[0]['ty']).startswith('&mut')
        n_self_ref += 1 if ok else 0
    rep.ob('purity', 'to_aml_bytes takes &self', n_impl == n_self_ref, '%d of %d serialisers do not take a shared reference' % (n_impl - n_self_ref, n_impl))
    rep.floor('impl Aml', n_impl, 150)

    # ---------------- total model: every emission evaluates with no unknown
    tops = []
    for st, im in f.impls_of('Aml'):
        segs, I, sink = emission(f, st)
        for c in I.calls_seen: rep.analysed.add(c)
        ok = not I.tops
        rep.ob('total-model', norm_ty(st), ok, 'serialiser of %s uses a construct outside the modelled set: %s' % (st, I.tops[:2]), sp=f.bodies[f.method('Aml', st, 'to_aml_bytes')]['sp'],
               detail={'shape': show_segs(segs)[:160]} if n_impl and len(rep.samples) < 6 else None)
        # the sink was driven through the five methods only
        extra = set(sink.calls) - set(SINK_METHODS)
        if extra: rep.ob('obliviousness', norm_ty(st), False, 'sink reached through %s' % extra)

    # ---------------- obliviousness (syntactic, every body with a sink-typed value)
    n_uses = 0
    for d, b in f.bodies.items():
        if b.get('body') is None: continue
        bad_uses = sink_uses(f, b)
        n_uses += bad_uses[1]
        rep.ob('obliviousness', d, not bad_uses[0], 'a sink value is used other than as receiver of the five methods or as a forwarded sink argument: %s' % bad_uses[0][:3], sp=b['sp']) if bad_uses[1] else None
    rep.floor('uses of sink values', n_uses, 500)

    # ---------------- sink agreement
    X = {'word': (A('x16', 0, 0xffff), 2), 'dword': (A('x32', 0, 0xffffffff), 4), 'qword': (A('x64', 0, (1 << 64) - 1), 8)}
    # (a) trait defaults on a sink that implements only byte: same bytes as byte-by-byte delivery
    defaults = f.trait_defaults.get('AmlSink', {})
    rep.ob('sink-agreement', 'AmlSink defaults present', set(defaults) == {'word', 'dword', 'qword', 'vec'}, 'default methods are %s' % sorted(defaults))
    for meth in ('word', 'dword', 'qword', 'vec'):
        if meth not in defaults: continue
        I = new_interp(f, abstract=())
        sink = OuterSink(byte_only=True); I.st.roots.append(sink)
        if meth == 'vec':
            arg = RefV(Cell(SeqV('u8', [('raw', ('a', 'v'), ('len', ('a', 'v')))], name='v'))); want = [('raw', ('a', 'v'), ('len', ('a', 'v')))]
        else:
            arg, w = X[meth]; want = [('int', arg, w)]
        run_fn(I, defaults[meth], [RefV(Cell(sink), True), arg]); rep.analysed.add(defaults[meth])
        # the default may only call byte/vec on self
        ok = not I.tops and norm_segs(sink.segs) == want and set(sink.calls) <= set(SINK_METHODS)
        rep.ob('sink-agreement', 'default AmlSink::' + meth, ok, 'default %s delivers %s through %s; specified: the little-endian bytes in order' % (meth, show_segs(sink.segs), sorted(set(sink.calls))),
               detail={'delivered': show_segs(norm_segs(sink.segs)), 'via': sorted(set(sink.calls))})
    # (b) in-crate sinks: each override appends exactly the bytes given, in order
    in_crate_sinks(f, rep, X)

    # ---------------- raw form = serialised form
    both = []
    into = {norm_ty(im['self']) for im in f.impls if im.get('trait') == 'zerocopy::IntoBytes'}
    for st, im in f.impls_of('Aml'):
        if norm_ty(st) in into and f.adt(norm_ty(st)): both.append(st)
    rep.floor('types that are both IntoBytes and Aml', len(both), 29)
    native = []
    for st in both:
        I = new_interp(f)
        v = I.sym_value(norm_ty(st), 'self')
        segs = emit_value(I, v, st)
        raw = I.as_bytes(v, norm_ty(st))
        ok = not I.tops and not isinstance(raw, Top) and segs_equal(segs, raw)[0]
        rep.ob('raw=serialised', norm_ty(st), ok, 'serialised form %s differs from the in-memory form %s' % (show_segs(segs)[:200], show_segs(raw)[:200] if not isinstance(raw, Top) else raw),
               sp=f.bodies[f.method('Aml', st, 'to_aml_bytes')]['sp'], detail={'bytes': show(seqlen(segs))})
        adt = f.adt(norm_ty(st))
        for fd in adt['variants'][0]['fields']:
            if norm_ty(fd['ty']) in ('u16', 'u32', 'u64'): native.append('%s.%s: %s' % (norm_ty(st), fd['name'], fd['ty']))
    for p, a in f.adts.items():
        if p in into and a['kind'] == 'Struct':
            for fd in a['variants'][0]['fields']:
                if norm_ty(fd['ty']) in ('u16', 'u32', 'u64') and '%s.%s: %s' % (p, fd['name'], fd['ty']) not in native: native.append('%s.%s: %s' % (p, fd['name'], fd['ty']))
    rep.extra['native_endian_multibyte_fields'] = native
    rep.extra['target_endian'] = f.cfg.get('endian')
    rep.ob('raw=serialised', 'target is little-endian', f.cfg.get('endian') == 'little', 'native multi-byte fields %s are emitted in target order, which is %s' % (native, f.cfg.get('endian')))

def sink_uses(f, b):
    """(bad uses, number of uses) of values of type &mut dyn AmlSink in a body"""
    bad = []; n = [0]
    def is_sink_ty(t): return norm_ty(t or '') in ('&mut dyn AmlSink', 'dyn AmlSink')
    def peel(x):
        while isinstance(x, dict) and x.get('k') in ('Borrow', 'Deref', 'Coerce'):
            x = x.get('arg')
        return x
    def is_sink_expr(x):
        y = peel(x)
        # a sink held in a field of a wrapper (`self.0`) is a sink value like a variable: the same uses are admitted
        return isinstance(y, dict) and y.get('k') in ('Var', 'Upvar', 'Field') and is_sink_ty(y.get('ty'))
    def walk(x, parent_ok=False):
        if isinstance(x, dict):
            k = x.get('k')
            if k == 'Call':
                callee = x.get('callee') or ''
                args = x.get('args', [])
                for i, a in enumerate(args):
                    if is_sink_expr(a):
                        n[0] += 1
                        ok = (callee in ('AmlSink::' + m for m in SINK_METHODS) and i == 0) or _param_is_sink(f, x, i)
                        if not ok: bad.append((x.get('sp'), callee))
                    else:
                        walk(a)
                if 'fun' in x: walk(x['fun'])
                return
            if k == 'Closure':
                for u in x.get('upvars', []):
                    if is_sink_expr(u): n[0] += 1
                    else: walk(u)
                return
            if k == 'Adt':
                # a crate-local wrapper built around the sink (`NodeWriter(sink)`): admitted when the field is declared as a
                # sink; what the wrapper's methods do with that field is decided in their own bodies by the Field case above
                a = f.adt(norm_ty(x.get('adt') or '')) if not x.get('is_enum') else None
                decl = {fd['name']: norm_ty(fd['ty']) for fd in a['variants'][0]['fields']} if a and a.get('variants') else {}
                for fd in x.get('fields', []):
                    if is_sink_expr(fd.get('e')):
                        n[0] += 1
                        if decl.get(fd.get('name')) != '&mut dyn AmlSink': bad.append((x.get('sp'), 'stored in %s.%s' % (x.get('adt'), fd.get('name'))))
                    else: walk(fd.get('e'))
                if x.get('base') is not None: walk(x.get('base'))
                return
            if k in ('Var', 'Upvar', 'Field') and is_sink_ty(x.get('ty')):
                n[0] += 1; bad.append((x.get('sp'), 'bare use')); return
            for key, v in x.items():
                if key in ('pat',): continue
                walk(v)
        elif isinstance(x, list):
            for v in x: walk(v)
    walk(b['body'])
    return bad, n[0]

def _param_is_sink(f, call, i):
    """argument i of the call is declared `&mut dyn AmlSink` (forwarding to another serialiser/helper)"""
    name = call.get('resolved') or call.get('callee')
    cb = f.bodies.get(name) or f.bodies.get(call.get('callee') or '')
    if cb and cb.get('params') and i < len(cb['params']):
        return norm_ty(cb['params'][i]['ty']) == '&mut dyn AmlSink'
    if (call.get('callee') or '') == 'Aml::to_aml_bytes' and i == 1: return True
    # a method of a crate-local trait (unresolved at this call site): every implementation declares the parameter as a sink
    tr = call.get('trait'); mname = call.get('callee_name')
    if tr and mname:
        impls = [d for (t_, _), ms in f.trait_impls.items() if t_ == tr for n_, d in ms.items() if n_ == mname]
        dflt = f.trait_defaults.get(tr, {}).get(mname)
        cands = [f.bodies[d] for d in impls + ([dflt] if dflt else []) if d in f.bodies]
        if cands and all(c.get('params') and i < len(c['params']) and norm_ty(c['params'][i]['ty']) == '&mut dyn AmlSink' for c in cands): return True
    return False
