"""C09 - name paths encode to the specification's NameString form and back.

Emission: the shape of `Path::to_aml_bytes` is partitioned by its own comparisons on the segment
count n; per cell it must be  ['\\' iff rooted]  (nothing | 2E | 2F n)  then the n segments verbatim,
and the n == 0 arm must refuse.  Parsing: `Path::new` is evaluated on a symbolic string; rootedness
must be starts_with('\\'), the segments the '.'-split of the remainder copied verbatim, and every
segment must pass a length-is-4 refusal (an assertion or the length check of copy_from_slice) on the
way: a malformed segment is refused, never emitted in altered form.  Where in the loop body the
refusal sits is immaterial, because a panicking constructor returns no Path.  Every named object's name operand is this Path emission (C06)."""
from sym import *
import sym
from model import *
from cells import *
from emit import emission
from evalr import SeqV, StructV, RefV, Cell

LEVEL = 'other'
RULE = 'interval partition on the segment count for the emitter; abstract evaluation of the parser with the segment-length guard dominating the push'
TRUSTED = ['emission-shape interpreter', 'models of str::split / starts_with as uninterpreted functions of the input string']
ASSUMPTIONS = ['segment characters are not validated by the crate (the property does not require it)', 'more than 255 segments is a C18 site']
EXPLANATION = __doc__

def run(ctx, rep):
    f = ctx.facts
    if f.method('Aml', 'aml::Path', 'to_aml_bytes') is None:
        rep.ob('anchor', 'impl Aml for aml::Path', False, 'not found'); return
    segs, I, sink = emission(f, 'aml::Path')
    rep.analysed.add(f.method('Aml', 'aml::Path', 'to_aml_bytes'))
    if I.tops: rep.undecided('prefix', 'aml::Path', I.tops); return
    n = ('len', ('a', 'self.name_parts'))
    root = ('a', 'self.root')
    # 1. root character
    first = segs[0] if segs else None
    ok = first is not None and first[0] == 'cond' and first[1] == root and list(first[2]) == [('int', C(0x5c), 1)] and list(first[3]) == []
    rep.ob('root', 'aml::Path', ok, 'the root character must be emitted first, exactly when the path is rooted; got %s' % show_segs(segs[:1]), detail={'first': show_segs(segs[:1])})
    body = segs[1:] if ok else segs
    # 2. prefix by cells of n
    ths = thresholds(segs_terms(body), n) | {1, 2, 3, 256}
    refused0 = any(g['kind'] in ('panic-arm', 'assert') and equal(ite(g['cond'], ONE, ZERO), ite(cmp('ne', n, ZERO), ONE, ZERO))[0] for g in I.guards)
    rep.ob('refuse-empty', 'aml::Path', refused0, 'a path with no segment must be refused', detail={'guards': [show(g['cond']) for g in I.guards]})
    tail = ('rep', n, 'self.name_parts[i]', (('raw', ('a', 'self.name_parts[i]'), C(4)),))
    for lo, hi in make_cells(1, 255, ths):
        flat, unres = in_cell(body, n, lo, hi)
        subj = 'aml::Path n in [%d..%d]' % (lo, hi)
        if unres: rep.ob('prefix', subj, False, 'comparison not constant on the cell: %s' % show(unres[0])); continue
        nv = C(lo) if lo == hi else n
        want = ([] if hi == 1 else [('int', C(0x2e), 1)] if (lo, hi) == (2, 2) else [('int', C(0x2f), 1), ('int', nv, 1)])
        if lo <= 2 < hi or lo < 2 <= hi and lo != hi: 
            rep.ob('prefix', subj, False, 'cell straddles a specification boundary'); continue
        got_prefix = flat[:-1]; got_tail = flat[-1:] 
        okp, why = segs_equal(got_prefix, want)
        okt = len(got_tail) == 1 and got_tail[0][0] == 'rep' and got_tail[0][3] == tail[3] and got_tail[0][1] in (n, nv)
        rep.ob('prefix', subj, okp and okt, 'for %d..%d segments: %s; segments part %s' % (lo, hi, why or 'prefix ok', show_segs(got_tail)),
               detail={'cell': [lo, hi], 'emitted': show_segs(flat), 'specified_prefix': show_segs(want)})
    # 3. parser
    b = f.bodies.get('aml::Path::new')
    if not b: rep.ob('anchor', 'aml::Path::new', False, 'not found'); return
    I = new_interp(f)
    args = sym_args(I, b)
    r = run_fn(I, b['def'], args)
    rep.analysed.add(b['def'])
    if I.tops or not isinstance(r, StructV): rep.undecided('parse', 'aml::Path::new', I.tops, b['sp']); return
    name = ('a', 'name')
    rt = r.fields['root']
    sw_ = ('call', 'starts_with', name, C(0x5c))
    rt_ok = rt == sw_ or (is_term(rt) and _is_indicator(rt, sw_))
    rep.ob('parse-root', 'aml::Path::new', rt_ok, 'rootedness is %s, specified starts_with(name, \'\\\\\')' % show(rt), sp=b['sp'], detail={'root': show(rt)})
    parts = r.fields['name_parts']
    ok = isinstance(parts, SeqV) and len(parts.segs) == 1 and parts.segs[0][0] == 'rep'
    src = None
    if ok:
        rp = parts.segs[0]
        var = rp[2]; src = rp[1]
        body_ = rp[3]
        # one element pushed per split part, bytes of the part verbatim
        # (the stored length may be written as the constant the refusal pins it to: compared under the refusals met)
        gfacts = tuple(x['cond'] for x in I.guards if x['kind'] in ('assert', 'copy_from_slice-len', 'unwrap', 'expect'))
        el_ = byte_view(I, body_[0][1]) if len(body_) == 1 and body_[0][0] == 'elem' else None     # (a private newtype of the 4 bytes is its bytes)
        es_ = None
        if isinstance(el_, SeqV):
            from evalr import flatten_stores
            es_ = norm_segs(flatten_stores(el_)) if el_.stores and flatten_stores(el_) is not None else (list(el_.segs) if not el_.stores else None)
            # four bytes copied one by one out of the part are the part's first four bytes
            if es_ and all(x[0] == 'int' and x[2] == 1 and x[1][0] == 'sel' and x[1][1] == ('a', var) and x[1][2] == C(k_) for k_, x in enumerate(es_)):
                es_ = [('raw', ('a', var), C(len(es_)))]
        ok = es_ is not None and len(es_) == 1 and es_[0][0] == 'raw' and es_[0][1] == ('a', var) and equal(es_[0][2], ('len', ('a', var)), gfacts)[0]
        # the parts are split(name, '.', start) with start = 1 exactly when the string is rooted
        sp_ = src[1] if src[0] == 'len' else None
        ok = ok and sp_ is not None and sp_[0] == 'call' and sp_[1] == 'split' and sp_[2] == name and sp_[3] == C(0x2e) \
            and _is_indicator(sp_[4], ('call', 'starts_with', name, C(0x5c)))
    rep.ob('parse-segments', 'aml::Path::new', ok, 'segments are not the verbatim \'.\'-split of the string after the root character: %r' % (parts,), sp=b['sp'],
           detail={'name_parts': repr(parts)[:300]})
    # 4. the 4-byte assertion guards every push
    # (an explicit assertion, or the length check inside copy_from_slice: either refuses the segment)
    g = [x for x in I.guards if x['kind'] in ('assert', 'copy_from_slice-len', 'unwrap', 'expect')]
    four = lambda x: equal(ite(x['cond'], ONE, ZERO), ite(cmp('eq', ('len', ('a', var)), C(4)), ONE, ZERO))[0]
    okg = ok and any(four(x) for x in g)
    rep.ob('refuse-malformed', 'aml::Path::new', okg, 'no assertion that every segment is exactly 4 bytes long before it is stored', sp=b['sp'], detail={'guards': [show(x['cond']) for x in I.guards]})
    # From<&str> is the same parser: evaluated on the same symbolic string it yields the same Path
    fb = f.bodies.get('<aml::Path as core::convert::From<&str>>::from')
    if fb:
        I2 = new_interp(f)
        r2 = run_fn(I2, fb['def'], sym_args(I2, b))      # same parameter name, hence the same symbolic string
        rep.analysed.add(fb['def'])
        same = isinstance(r2, StructV) and not I2.tops and r2.fields['root'] == r.fields['root'] and repr(r2.fields['name_parts']) == repr(r.fields['name_parts'])
        rep.ob('parse-alias', 'From<&str> for Path', same, 'From<&str> does not build the Path that Path::new builds: %r' % (r2,), sp=fb['sp'])

def _is_indicator(t, b):
    """t is 1 when the boolean term b holds and 0 when it does not (case analysis on b)"""
    for v in (0, 1):
        r = rebuild(rebuild(t, lambda x: (C(v) if x == b else None)), lambda x: None)
        if r != C(v): return False
    return True
