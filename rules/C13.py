"""C13 - the generic table (Sdt) behaves as a byte vector with a self-maintaining header.

Interval-write summaries of every public operation on a fully symbolic table (len >= 36, itself an
inductive invariant shown here):
  who-may-write : only functions of the type (its inherent methods and its AmlSink impl) write `data`, and a
                  private writer (one that skips the checksum refresh) is not callable from outside the type
  model         : the image after an operation, in a normal form that does not depend on how it was produced
                  (superseded writes dropped, writes covering whole appended pieces folded into them), is the
                  model's - append: old ++ value bytes and bytes 4..8 := new length; append_slice: old ++ slice
                  and bytes 4..8 := new length; write*: one write of the value's bytes at `offset` - plus the
                  checksum byte; an operation the model does not name must still store a changed size in 4..8
  checksum      : every operation ends in the zero / sum-everything / store sequence on byte 9, and the
                  image then sums to 0 (byte-sum algebra)
  refusal       : the bounds assertion of write_bytes is evaluated before any mutation of the table
                  (an out-of-range write panics with the table untouched)
  header        : `new` lays out signature, length, revision, checksum, OEM ids, creator ids at the
                  standard offsets and zero-fills to the declared length."""
from sym import *
import sym
from model import *
from evalr import SeqV, StructV, RefV, Cell, stored_sum, S_of, seglen, norm_segs
from rules.C01 import writers_of, z
from rules.C02 import _generic_variants, _sdt_arg, read_le

LEVEL = 'proof'
RULE = 'interval-write summaries vs the byte-vector model; must-pass-through and guard-before-mutation ordering on the evaluation log'
TRUSTED = ['Vec::resize / extend_from_slice / copy_from_slice modelled as appends and interval writes (std contract)']
ASSUMPTIONS = ['tables < 4 GiB (`new_length as u32`)']
EXPLANATION = __doc__

SIZES = {'u8': 1, 'u16': 2, 'u32': 4, 'u64': 8}

def effective(I, stores, total):
    """drop writes that a later write covers completely; index-9 writes are the checksum and listed apart.
    Returns (writes, checksum_writes) or None when an overlap cannot be decided."""
    out = []; ck = []
    items = list(stores)
    for n, (i, v) in enumerate(items):
        if not (isinstance(i, tuple) and i and i[0] == 'range'):
            if i == C(9): ck.append((n, v)); continue
            lo, hi = i, add(i, ONE); val = ('byte', v)
        else:
            lo, hi = i[1], i[2]; val = v
        out.append((n, lo, hi, val))
    return out, ck

def run(ctx, rep):
    _run(ctx, rep)
    if ctx.tier == 'thorough':
        import witness
        witness.check(rep, ctx, ['C13DataPrivate'])

def _run(ctx, rep):
    f = ctx.facts
    ty = 'sdt::Sdt'
    fs = fns_of(f, ty)
    need = ['new', 'update_checksum', 'append', 'append_slice', 'write_bytes', 'write']
    for nme in need: rep.ob('anchor', ty + '::' + nme, nme in fs, '%s::%s not found' % (ty, nme))
    if not all(nme in fs for nme in need): return
    adt = f.adt(ty)
    rep.ob('encapsulation', 'Sdt.data private', adt['variants'][0]['fields'][0]['vis'] != 'pub', 'Sdt.data is public: the image can be changed behind the checksum')
    ws = writers_of(f, ty)
    # every public operation of Sdt is analysed below; what must not exist is a writer outside the type's own functions, or
    # a private writer (one that skips the checksum refresh) reachable from anywhere but the type's own functions
    from rules.C01 import callers_of
    own = {b_['def'] for b_ in fs.values()} | set(f.trait_impls.get(('AmlSink', ty), {}).values()) | {d_ for d_, b_ in f.bodies.items() if b_.get('derived')}
    own |= {d_ for d_ in ws if any(d_.startswith(o + '::{closure') for o in own)}
    rep.ob('who-may-write', 'Sdt.data', ws <= own, 'functions outside impl Sdt write Sdt.data: %s' % sorted(ws - own), detail={'writers': sorted(ws)})
    priv_writers = {d_ for d_ in ws & own if f.bodies[d_].get('vis') != 'pub' and not f.bodies[d_].get('trait')}
    if priv_writers:
        leak = sorted(c for c in callers_of(f, priv_writers) if c not in own)
        rep.ob('who-may-write', 'Sdt private writers', not leak, 'private functions that write Sdt.data without refreshing the checksum are called from outside impl Sdt: %s' % leak, detail={'private_writers': sorted(priv_writers)})

    # ---- new
    I = new_interp(f)
    args = sym_args(I, fs['new'])
    st = run_fn(I, fs['new']['def'], args); rep.analysed.update([fs['new']['def']] + I.calls_seen)
    if I.tops or not isinstance(st, StructV): rep.undecided('header', 'sdt::Sdt::new', I.tops, fs['new']['sp'])
    else:
        d = st.fields['data']
        P = lambda n: ('a', n)
        want = [('raw', P('signature'), C(4)), ('int', P('length'), 4), ('int', P('revision'), 1), ('int', ZERO, 1), ('raw', P('oem_id'), C(6)), ('raw', P('oem_table'), C(8)),
                ('int', P('oem_revision'), 4)] + [('int', C(b), 1) for b in b'RVAT'] + [('int', C(b), 1) for b in (0, 0, 0, 1)] + [('rep', sub(P('length'), C(36)), None, (('int', ZERO, 1),))]
        ok, why = segs_equal(d.segs, want, [c for c, _ in I.st.facts])
        rep.ob('header', 'sdt::Sdt::new', ok, 'Sdt::new lays the header out as %s: %s' % (show_segs(d.segs)[:200], why), sp=fs['new']['sp'], detail={'layout': show_segs(d.segs), 'specified': show_segs(want)})
        rep.ob('refusal', 'sdt::Sdt::new', refused(I.guards, cmp('le', C(36), P('length'))), 'a declared length below 36 is not refused', sp=fs['new']['sp'], detail={'guards': [show(g['cond']) for g in I.guards]})
        # the checksum clause: the image sums to zero and byte 9 was the last thing written (how it is computed - zero,
        # sum, store; or sum with the stale byte and take it back out - is not part of the property)
        from rules.C01 import z
        ck_ok = [s for s in d.stores if s[0] == C(9)]
        sym.CTX = I.st.ranges
        try:
            zero_ = equal(z(stored_sum(('stored', tuple(d.segs), tuple(d.stores), 1, 'u8'))), ZERO, [c for c, _ in I.st.facts])[0]
        finally:
            sym.CTX = {}
        rep.ob('checksum', 'sdt::Sdt::new', len(ck_ok) >= 1 and d.stores[-1][0] == C(9) and zero_, 'new does not end by storing a checksum byte that makes the image sum to zero', sp=fs['new']['sp'])

    # ---- update_checksum shape: data[9] = 0; c = -S(whole); data[9] = c
    I = new_interp(f); sv = I.sym_value(ty, 'self')
    run_fn(I, fs['update_checksum']['def'], [RefV(Cell(sv), True)]); rep.analysed.add(fs['update_checksum']['def'])
    d = sv.fields['data']
    # it may write byte 9 only, and afterwards the whole image sums to zero
    from rules.C01 import z
    ok = not I.tops and len(d.stores) >= 1 and all(is_term(i_) and i_ == C(9) for i_, _ in d.stores)
    if ok:
        ok = equal(z(stored_sum(('stored', tuple(d.segs), tuple(d.stores), 1, 'u8'))), ZERO)[0]
    rep.ob('checksum', 'sdt::Sdt::update_checksum', ok, 'update_checksum must write byte 9 only and leave an image that sums to zero', sp=fs['update_checksum']['sp'],
           detail={'stores': [(show(i) if isinstance(i, tuple) and i[0] != 'range' else str(i), show(v) if isinstance(v, tuple) and v and isinstance(v[0], str) else str(v)) for i, v in d.stores]})

    # ---- every public mutator
    n_ops = 0
    for name, b in sorted(fs.items()):
        if not is_pub(b) or classify(b, ty) != 'mut' or name == 'update_checksum': continue
        for variant in _generic_variants(b):
            I = new_interp(f)
            sv = I.sym_value(ty, 'self')
            old = seqlen(sv.fields['data'].segs)
            I.st.ranges[old] = (36, (1 << 63) - 1)      # (a Vec<u8> holds at most isize::MAX bytes)
            args = [_sdt_arg(I, nm, t, variant) for nm, t in params_of(b)[1:]]
            P = {nm: a for (nm, _), a in zip(params_of(b)[1:], args)}
            run_fn(I, b['def'], [RefV(Cell(sv), True)] + args, tsub={'T': variant} if variant else None)
            rep.analysed.update([b['def']] + I.calls_seen)
            subj = b['def'] + (('<%s>' % variant) if variant else ''); n_ops += 1
            if I.tops: rep.undecided('model', subj, I.tops, b['sp']); continue
            d = sv.fields['data']
            sym.CTX = I.st.ranges
            try:
                model_check(rep, f, I, subj, name, b, d, old, P, variant)
            finally:
                sym.CTX = {}
            # must end in update_checksum: the last two stores are [9]:=0, [9]:=c with nothing after
            # (the last thing that touches the image is a store to byte 9, and the image then sums to zero: C01 decides the sum)
            ok = len(d.stores) >= 1 and d.stores[-1][0] == C(9)
            # (only events that touch the table: its image or one of its own fields; a local Checksum is not the table)
            mine = lambda ev: ev[0] == 'mutate' and (len(ev) < 4 or ev[3] is None or ev[3] in (d.uid, sv.uid))
            last_muts = [ev[1] for ev in I.log if mine(ev)][-1:]
            ok = ok and last_muts == ['index-store']     # nothing touches the image after the recomputation
            if ok:
                sym.CTX = I.st.ranges
                try:
                    ok = equal(z(stored_sum(('stored', tuple(d.segs), tuple(d.stores), 1, 'u8'))), ZERO, [c for c, _ in I.st.facts])[0]
                finally:
                    sym.CTX = {}
            rep.ob('checksum', subj, ok, '%s does not end by recomputing the checksum (something modifies the image afterwards or it is not recomputed)' % name, sp=b['sp'],
                   detail={'last_mutations': last_muts})
            # refusal before mutation
            guards = [k for k, ev in enumerate(I.log) if ev[0] == 'guard']
            muts = [k for k, ev in enumerate(I.log) if mine(ev)]
            if guards:
                ok = not muts or max(guards) < min(muts)
                rep.ob('refusal', subj, ok, '%s can panic on a bounds assertion after it has already modified the table' % name, sp=b['sp'],
                       detail={'log': [(ev[0], show(ev[1]) if ev[0] == 'guard' else ev[1]) for ev in I.log][:12]})
            if name in ('write_bytes', 'write', 'write_u8', 'write_u16', 'write_u32', 'write_u64'):
                off = P['offset']; ln = seqlen(P['data'].place.get().segs) if name == 'write_bytes' else C(SIZES.get(variant) or {'write_u8': 1, 'write_u16': 2, 'write_u32': 4, 'write_u64': 8}.get(name, 0))
                want = cmp('le', add(off, ln), old)
                ok = any(equal(ite(g['cond'], ONE, ZERO), ite(want, ONE, ZERO))[0] for g in I.guards if g['kind'] == 'assert') or refused(I.guards, want)
                rep.ob('refusal', subj + ':bounds', ok, '%s does not refuse a write that would end past the table (offset + len <= len(data))' % name, sp=b['sp'],
                       detail={'guards': [show(g['cond']) for g in I.guards], 'required': show(want)})
    rep.floor('Sdt public operations (typed variants expanded)', n_ops, 14)
    # ---- the table as a sink: every entry point of `impl AmlSink for Sdt` the crate overrides is an operation too -
    # it appends exactly the bytes delivered, stores the new size, and leaves an image that sums to zero
    import sdtsink
    from rules.C01 import z
    for label, meth, mk in sdtsink.cases(f):
        I, sv, old, want = sdtsink.run_case(f, meth, mk)
        rep.analysed.update(I.calls_seen)
        subj = 'sdt::Sdt as AmlSink::' + label
        if I.tops: rep.undecided('model', subj, I.tops, None); continue
        d = sv.fields['data']
        sym.CTX = I.st.ranges
        try:
            facts = [c for c, _ in I.st.facts]
            nf = folded(d, facts)
            n_new = seqlen(list(want))
            if nf is None: okm = False
            else:
                base, writes, _ck = nf
                okm = segs_equal(base, [('raw', ('a', 'self.data'), old)] + list(want), facts)[0]
                if n_new != ZERO:
                    w = {(show(lo), show(hi)): tuple(v) for lo, hi, v in writes}
                    okm = okm and len(writes) == 1 and same(w.get((show(C(4)), show(C(8)))), [('int', add(old, n_new), 4)])
                else:
                    okm = okm and not writes
            rep.ob('model', subj, okm, 'after %s the table is %s with writes %s; model: old ++ the bytes delivered, bytes 4..8 := new length' %
                   (label, show_segs(nf[0]) if nf else None, [(show(a), show(b_)) for a, b_, _ in nf[1]] if nf else None), detail={'image': show_segs(nf[0]) if nf else None})
            # checksum: the resulting image sums to zero, given that the image before did (induction hypothesis)
            tot = z(stored_sum(('stored', tuple(d.segs), tuple(d.stores), 1, 'u8')))
            tot = z(rebuild(tot, lambda x: ZERO if x == ('S', ('raw', ('a', 'self.data'))) else None))
            okc = equal(tot, ZERO, facts)[0] or (not d.stores and d.segs == I.sym_value('sdt::Sdt', 'self').fields['data'].segs)
            rep.ob('checksum', subj, okc, 'after %s the image sums to %s (mod 256) even when it summed to 0 before' % (label, show(tot)), detail={'sum': show(tot)})
        finally:
            sym.CTX = {}
    # readers
    for name in ('len', 'as_slice', 'is_empty'):
        if name in fs:
            I = new_interp(f); sv = I.sym_value(ty, 'self')
            r = run_fn(I, fs[name]['def'], [RefV(Cell(sv))]); rep.analysed.add(fs[name]['def'])
            if name == 'len': rep.ob('reader', 'sdt::Sdt::len', r == ('len', ('a', 'self.data')), 'len() is not the number of bytes held')
            if name == 'as_slice':
                v = r.place.get() if isinstance(r, RefV) else r
                rep.ob('reader', 'sdt::Sdt::as_slice', v is sv.fields['data'], 'as_slice() is not the stored image')
    d_ = f.method('Aml', ty, 'to_aml_bytes')
    from emit import emission
    e, Ie, _ = emission(f, ty); rep.analysed.add(d_)
    rep.ob('reader', 'impl Aml for Sdt', e == [('raw', ('a', 'self.data'), ('len', ('a', 'self.data')))], 'serialising an Sdt does not deliver the stored image verbatim: %s' % show_segs(e))

def same(v, want):
    return v is not None and isinstance(v, tuple) and segs_equal(list(v), want)[0]

def folded(d, facts=()):
    """normal form of an image given as appended pieces plus interval writes: writes superseded by a later write of the
    same interval are dropped, and a write that covers exactly whole appended pieces (not the old image) replaces them.
    Returns (pieces, remaining writes [(lo, hi, bytes)]) - the checksum byte writes (index 9) are listed apart."""
    base = list(norm_segs(list(d.segs)))
    writes = []; ck = []
    for (i, v) in d.stores:
        if isinstance(i, tuple) and i and i[0] == 'range': writes.append((i[1], i[2], list(v)))
        elif isinstance(i, tuple) and i and i[0] == 'within': return None
        elif i == C(9): ck.append(v)
        else: writes.append((i, add(i, ONE), [('int', v, 1)]))
    eff = []
    for k, (lo, hi, val) in enumerate(writes):
        if any(equal(lo2, lo, facts)[0] and equal(hi2, hi, facts)[0] for (lo2, hi2, _) in writes[k + 1:]): continue
        eff.append((lo, hi, val))
    changed = True
    while changed:
        changed = False
        bounds = [ZERO]
        for s in base: bounds.append(add(bounds[-1], seglen(s)))
        for w in list(eff):
            lo, hi, val = w
            i0 = next((i for i in range(1, len(bounds)) if equal(bounds[i], lo, facts)[0]), None)     # never inside the old image (piece 0)
            i1 = next((j for j in range((i0 or 0) + 1, len(bounds)) if equal(bounds[j], hi, facts)[0]), None) if i0 is not None else None
            others_low = all(o is w or (o[1][0] == 'c' and o[1][1] <= 36) for o in eff)
            if i0 is not None and i1 is not None and others_low:
                base[i0:i1] = list(val); eff.remove(w); base = list(norm_segs(base)); changed = True; break
    return base, eff, ck

def model_check(rep, f, I, subj, name, b, d, old, P, variant):
    facts = [c for c, _ in I.st.facts]
    nf = folded(d, facts)
    selfraw = ('raw', ('a', 'self.data'), old)
    if nf is None:
        rep.undecided('model', subj, [('in-place move inside the table', b['sp'])], b['sp']); return
    base, writes, _ck = nf
    if name in ('append',):
        sz = SIZES[variant]; val = P['value']
        exp_base = [selfraw, ('int', val, sz)]
        okb, why = segs_equal(base, exp_base, facts)
        newlen = add(old, C(sz))
        w = {(show(lo), show(hi)): tuple(v) for lo, hi, v in writes}
        ok = okb and same(w.get((show(C(4)), show(C(8)))), [('int', newlen, 4)]) and len(writes) == 1
        rep.ob('model', subj, ok, 'append<%s>: image is %s with writes %s; model: old ++ value, bytes 4..8 := new length' % (variant, show_segs(base), sorted(w)), sp=b['sp'],
               detail={'base': show_segs(base), 'writes': {str(k): show_segs(list(v)) if isinstance(v, tuple) and v and isinstance(v[0], tuple) else str(v) for k, v in w.items()}})
        return
    base = list(base); writes = [(k_, lo, hi, tuple(v)) for k_, (lo, hi, v) in enumerate(writes)]
    if name == 'append_slice':
        dat = P['data'].place.get()
        exp_base = [selfraw] + list(dat.segs)
        okb, why = segs_equal(base, exp_base)
        newlen = add(old, seqlen(dat.segs))
        w = {(show(lo), show(hi)): v for _, lo, hi, v in writes}
        ok = okb and same(w.get((show(C(4)), show(C(8)))), [('int', newlen, 4)]) and len(writes) == 1
        rep.ob('model', subj, ok, 'append_slice: image is %s with writes %s; model: old ++ slice, bytes 4..8 := new length' % (show_segs(base), sorted(w)), sp=b['sp'], detail={'base': show_segs(base)})
    elif name not in ('write_bytes', 'write', 'write_u8', 'write_u16', 'write_u32', 'write_u64') or 'offset' not in P:
        # an operation the byte-vector model does not name: whatever it does to the body, the header must follow -
        # the length field holds the new size (C02) and the operation ends by refreshing the checksum (checked by the caller)
        total = seqlen(base)
        grew = not equal(total, old, facts)[0]
        w = {(show(lo), show(hi)): v for _, lo, hi, v in writes}
        ok = (not grew) or same(w.get((show(C(4)), show(C(8)))), [('int', total, 4)])
        rep.ob('model', subj, ok, '%s changes the size of the table to %s without storing it in bytes 4..8' % (name, show(total)), sp=b['sp'], detail={'base': show_segs(base)})
        rep.info.append({'operation outside the byte-vector model': subj, 'writes': sorted(w)})
    else:
        okb, why = segs_equal(base, [selfraw])
        off = P['offset']
        if name == 'write_bytes': vals = tuple(P['data'].place.get().segs); ln = seqlen(list(vals))
        else:
            key = 'value' if 'value' in P else 'val'
            sz = SIZES.get(variant) or {'write_u8': 1, 'write_u16': 2, 'write_u32': 4, 'write_u64': 8}[name]
            vals = (('int', P[key], sz),); ln = C(sz)
        w = [(lo, hi, v) for _, lo, hi, v in writes]
        ok = okb and len(w) == 1 and w[0][0] == off and equal(w[0][1], add(off, ln))[0] and w[0][2] == vals
        rep.ob('model', subj, ok, '%s: image %s with writes %s; model: one write of the value bytes at `offset`' % (name, show_segs(base), [(show(a), show(b_)) for a, b_, _ in w]), sp=b['sp'],
               detail={'base': show_segs(base), 'writes': [(show(a), show(b_), show_segs(list(v))) for a, b_, v in w]})
