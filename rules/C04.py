"""C04 - caller values land at their specification offsets (image = reference encoding).

Translation-validation style comparison of two encodings of the same structure: the emission shape
computed from the crate's code (constructor evaluated on symbolic arguments, then serialised) and the
layout the governing specification prescribes (spec/layouts.py), segment by segment: offset, width,
little-endianness (by construction of integer segments; big-endian field types do not evaluate),
source parameter, constants, reserved values, derived values (bus<<8|dev<<3|fn, low/high dword splits,
attribute packing).  Fields that only a setter fills are checked through the serialiser on a symbolic
receiver: the field of that name must sit at the specified offset and width.  Packed structs are
compared through rustc's field offsets, so a field reorder or retype is seen."""
from sym import *
import sym, sys, os
from model import *
from emit import emission
from evalr import SeqV, StructV, EnumV, RefV, Cell
from layout_cmp import *
sys.path.insert(0, os.path.join(os.path.dirname(os.path.dirname(os.path.abspath(__file__))), 'spec'))
import layouts as SPEC

LEVEL = 'translation_validation'
RULE = 'emission shape of constructor(args) vs specification layout, field by field; setter placement via symbolic receiver; rustc field offsets vs specification offsets'
TRUSTED = ['spec/layouts.py (my reading of the specifications; RIMT entries are pinned to today\'s tree)', 'emission-shape interpreter']
ASSUMPTIONS = ['narrowing casts are value-preserving for values that fit (C18)', 'semantic validity of caller values is out of scope']
EXPLANATION = __doc__

def self_positions(f, ty):
    segs, I, _ = emission(f, ty)
    lst, _ = with_offsets(segs)
    return lst, I

def run(ctx, rep):
    f = ctx.facts
    n = 0
    for (ty, ctor), sp in sorted(SPEC.STRUCTS.items(), key=lambda x: (x[0][0], x[0][1] or '')):
        n += check_struct(f, rep, ty, ctor, sp['items'], sp['source'], sp.get('self_view'))
    for ty, sp in sorted(SPEC.TABLES.items()):
        n += check_struct(f, rep, ty, sp['ctor'], sp['items'], sp['source'], False, table=True)
    rep.extra['programs'] = n
    rep.floor('structures compared with a specification layout', n, 60)
    # rustc layouts of the packed structs named in the specification
    for path, fields in sorted(SPEC.LAYOUTS.items()):
        adt = f.adt(path)
        if not adt: rep.ob('anchor', path, False, 'type not found'); continue
        got = {fd['name']: (fd['off'], fd['size']) for fd in adt['variants'][0]['fields']}
        for nm, off, w in fields:
            rep.ob('field-offset', '%s.%s' % (path, nm), got.get(nm) == (off, w), '%s.%s is at %s, specified offset %d width %d' % (path, nm, got.get(nm), off, w), sp=adt['sp'],
                   detail={'rustc': got.get(nm), 'specified': [off, w]})
        extra = set(got) - {x[0] for x in fields}
        rep.ob('field-offset', path + ':no extra fields', not extra, '%s has fields the specification does not: %s' % (path, sorted(extra)), sp=adt['sp'])
        rep.ob('field-offset', path + ':packed', adt.get('repr_packed') and adt.get('repr_c'), '%s is not #[repr(C, packed)]' % path, sp=adt['sp'])
    fadt_ctor(f, rep)
    generic_address(f, rep)
    mcfg_entry(f, rep)
    ctor_fields(f, rep)
    # matrix cells: the index rule is shared with C12 (a value assigned to (i, j) must land at the row-major offset)
    import rules.C12 as C12
    C12.hmat(f, rep); C12.slit(f, rep, with_checksum=False)
    # builder programs = constructor + any sequence of setters: a setter-filled field holds what the setters wrote, so the
    # effect of every setter / option builder on the fields (shared with C11) is part of "the image holds the caller's values"
    import rules.C11 as C11
    C11.builders(f, rep)

def check_struct(f, rep, ty, ctor, items, source, self_view, table=False):
    subj = '%s::%s' % (ty, ctor or 'self')
    aml_ty = ty if f.method('Aml', ty, 'to_aml_bytes') else next((st for st, _ in f.impls_of('Aml') if norm_ty(st).split('<')[0] == ty), None)
    if aml_ty is None: rep.ob('anchor', subj, False, 'no impl Aml for %s' % ty); return 0
    I = new_interp(f)
    P = {}
    if ctor and '::' in ctor:
        cb = f.bodies.get(ctor)
        if cb is None: rep.ob('anchor', subj, False, 'function not found'); return 0
        rep.analysed.add(cb['def'])
        obj = run_fn(I, cb['def'], [I.sym_value(norm_ty(cb['self_ty']), 'self')] + [I.sym_value(norm_ty(t_), n_) for n_, t_ in params_of(cb)[1:]])
    elif self_view or ctor is None:
        obj = I.sym_value(norm_ty(aml_ty), 'self')
    else:
        cb = fns_of(f, ty).get(ctor)
        if cb is None: rep.ob('anchor', subj, False, 'constructor not found'); return 0
        rep.analysed.add(cb['def'])
        args = sym_args(I, cb)
        inv_ = field_invariants(f)
        for a_ in args: apply_invariants(I, a_, inv_)      # struct arguments carry the invariants of their own constructors
        obj = run_fn(I, cb['def'], args)
    rep.analysed.add(f.method('Aml', aml_ty, 'to_aml_bytes'))
    if I.tops or not isinstance(obj, (StructV, EnumV)): rep.undecided('layout', subj, I.tops); return 0
    if isinstance(obj, StructV): obj.ty = aml_ty
    segs = emit_value(I, obj, aml_ty)
    if I.tops: rep.undecided('layout', subj, I.tops); return 0
    exp, tags = build(items, P)
    if table:
        # the variable body is empty after construction
        pass
    facts = [c for c, _ in I.st.facts]
    mism = compare(segs, exp, tags, facts)
    rep.spec_entries[source if source in rep.spec_entries else 'spec'] += 1
    sp_ = f.bodies[f.method('Aml', aml_ty, 'to_aml_bytes')]['sp']
    if not mism:
        rep.ob('layout', subj, True, detail={'bytes': show(seqlen(segs)), 'fields': len(exp), 'source': source})
    for off, what in mism:
        rep.ob('layout', '%s@%s' % (subj, off), False, '%s at offset %s: %s' % (subj, off, what), sp=sp_, detail={'offset': off, 'what': what, 'image': show_segs(segs)[:400]})
    # bit-packed fields: under the constructor's refusals no component can spill into its neighbour or out of the field
    # (the layout comparison above treats narrowing as exact; this is the side condition for packed caller values)
    from cells import packing_defects
    def packed_fields(ss, base, conds):
        for p_, s_ in with_offsets(list(ss))[0]:
            off = add(base, p_)
            if s_[0] == 'int' and any(u[0] == 'or' for u in subterms(s_[1])): yield off, s_, conds
            elif s_[0] == 'cond':
                yield from packed_fields(s_[2], off, conds + [s_[1]]); yield from packed_fields(s_[3], off, conds + [bnot(s_[1])])
            elif s_[0] == 'rep': yield from packed_fields(s_[3], off, conds)
    for p_, s_, conds_ in packed_fields(segs, ZERO, []):
        # refusals that dominate this field: those evaluated under path conditions that all hold where the field is emitted
        ranges_ = dict(I.st.ranges); holds = set(conds_) | {c for c, _ in I.st.facts}
        changed_ = True
        while changed_:
            changed_ = False
            for g in I.guards:
                if g['cond'] in holds or not is_term(g['cond']): continue
                if all(c in holds for c in g.get('ctx', [])):
                    holds.add(g['cond']); sym.refine(g['cond'], ranges_); changed_ = True
        bad = packing_defects(s_[1], 8 * s_[2], ranges_)
        rep.ob('packing', '%s@%s' % (subj, show(p_)), not bad, '%s at offset %s packs %s: %s' % (subj, show(p_), show(s_[1])[:120], '; '.join(bad[:2])), sp=sp_,
               detail={'field': show(s_[1])[:200], 'defects': bad[:4], 'under': [show(c) for c in conds_]})
    # setter-filled fields: placement through the symbolic receiver
    setters = [(p, s, t) for (p, s, t) in tagged_positions(exp, tags) if isinstance(t, tuple) and t[0] in ('setter', 'setter-struct')]
    if setters:
        lst, Is = self_positions(f, aml_ty)
        at = {show(p): s for p, s in lst}
        for p, s, t in setters:
            g = at.get(show(p))
            if t[0] == 'setter':
                ok = g is not None and g[0] == 'int' and g[2] == s[2] and g[1] == ('a', 'self.' + t[1])
                adt_ = f.adt(ty)
                if not ok and adt_ and all(fd['name'] != t[1] for fd in adt_['variants'][0]['fields']) and g is not None and g[0] == 'int' and g[2] >= s[2]:
                    # the field is not kept in the state under its name (separate bools combined at serialisation time):
                    # what is emitted here *is* the field; C11 decides, on the emission, that every option sets its own bit
                    # of it and the constructor starts it as specified
                    rep.ob('setter-placement', '%s.%s' % (ty, t[1]), True, sp=sp_, detail={'offset': show(p), 'width': s[2], 'derived_at_serialisation': show_segs([g])[:120]}); continue
                if not ok and g is not None and g[0] == 'int' and g[2] > s[2] and g[1] == ('a', 'self.' + t[1]):
                    # emitted through a wider integer: the field's bytes followed by zero bytes (the layout rule decides
                    # whether zeros are what the specification has there)
                    lo_, hi_ = rng(g[1]); ok = lo_ >= 0 and hi_ < (1 << (8 * s[2]))
                rep.ob('setter-placement', '%s.%s' % (ty, t[1]), ok, 'field %s of %s must be emitted at offset %s as a %d-byte little-endian value; found %s' % (t[1], ty, show(p), s[2], show_segs([g]) if g else 'nothing'),
                       sp=sp_, detail={'offset': show(p), 'width': s[2], 'found': show_segs([g]) if g else None})
            else:
                ok = g is not None and g[0] == 'int' and g[2] == s[2] and all(isinstance(a[1], str) and a[1].startswith('self.' + t[1] + '.') for a in atoms(g[1]))
                rep.ob('setter-placement', '%s.%s@%s' % (ty, t[1], show(p)), ok, 'sub-structure %s of %s must occupy offset %s (%d bytes); found %s' % (t[1], ty, show(p), s[2], show_segs([g]) if g else 'nothing'), sp=sp_)
    return 1

def ctor_fields(f, rep):
    """constructors of structures whose layout is compared through a symbolic receiver: each field receives the argument
    (or constant) the specification table names, so that constructor + serialiser together place the caller's values"""
    for (ty, ctor), fields in sorted(SPEC.CTOR_FIELDS.items()):
        cb = fns_of(f, ty).get(ctor)
        subj = '%s::%s' % (ty, ctor)
        if cb is None: rep.ob('anchor', subj, False, 'constructor not found'); continue
        I = new_interp(f)
        if ty in I.ctor_closed:
            # the private state is no longer the specified fields; every value of the type is new(arguments) and the layout
            # rules evaluate the serialiser on exactly that (symbolic receivers are built through the constructor)
            rep.analysed.add(cb['def'])
            rep.ob('ctor-fields', subj, True, '', sp=cb['sp'], detail={'fields': len(fields), 'through_constructor': True}); continue
        args = sym_args(I, cb); P = {n_: a for (n_, _), a in zip(params_of(cb), args)}
        st = run_fn(I, cb['def'], args); rep.analysed.add(cb['def'])
        if I.tops or not isinstance(st, StructV): rep.undecided('ctor-fields', subj, I.tops, cb['sp']); continue
        bad = []
        for fld, want in fields.items():
            got = st.fields.get(fld)
            if isinstance(want, str) and want.startswith('='):
                w = P.get(want[1:])
                ok = w is not None and (got is w or (is_term(got) and is_term(w) and equal(strip_trunc(got), w)[0]) or (not is_term(got) and repr(got) == repr(w)))
            elif want == 'empty':
                ok = isinstance(got, SeqV) and not got.segs and not got.stores
            else:
                ok = is_term(got) and equal(got, C(want))[0]
            if not ok: bad.append('%s = %s (specified %s)' % (fld, show(got) if is_term(got) else repr(got)[:60], want))
        rep.ob('ctor-fields', subj, not bad, '%s does not hand its arguments to the fields the layout reads them from: %s' % (subj, '; '.join(bad[:3])), sp=cb['sp'], detail={'fields': len(fields)})

def mcfg_entry(f, rep):
    """the allocation entry that MCFG::add_ecam builds in place (PCI Firmware spec table 4-3): base address (8), segment
    group (2), start bus (1), end bus (1), reserved (4, zero)"""
    fs = fns_of(f, 'mcfg::MCFG')
    cb = fs.get('add_ecam')
    if cb is None: rep.ob('anchor', 'mcfg::MCFG::add_ecam', False, 'not found'); return
    I = new_interp(f)
    sv = I.sym_value('mcfg::MCFG', 'self')
    args = [I.sym_value(norm_ty(t_), n_) for n_, t_ in params_of(cb)[1:]]
    run_fn(I, cb['def'], [RefV(Cell(sv), True)] + args); rep.analysed.add(cb['def'])
    vec = sv.fields.get('entries')
    if I.tops or not isinstance(vec, SeqV) or not vec.segs or vec.segs[-1][0] != 'elem':
        rep.undecided('layout', 'mcfg::MCFG::add_ecam', I.tops or [('the entry vector does not end with the new entry', cb['sp'])], cb['sp']); return
    ent = vec.segs[-1][1]
    ety = ent.ty if isinstance(ent, StructV) else None
    segs = emit_value(I, ent, ety) if ety and f.method('Aml', ety, 'to_aml_bytes') else None
    if segs is None and ety and not I.tops:
        # an entry type without a serialiser of its own is delivered through its layout bytes (`entries.as_bytes()`)
        lb = I.as_bytes(ent, ety)
        segs = norm_segs(lb) if isinstance(lb, list) else None
    if segs is None or I.tops: rep.undecided('layout', 'mcfg::MCFG::add_ecam', I.tops or [('entry is not serialisable', cb['sp'])], cb['sp']); return
    P = {n_: a for (n_, _), a in zip(params_of(cb)[1:], args)}
    want = [('int', P['base_addr'], 8), ('int', P['segment'], 2), ('int', P['start_bus'], 1), ('int', P['end_bus'], 1), ('int', ZERO, 4)]
    ok, why = segs_equal(segs, want, [c for c, _ in I.st.facts])
    rep.ob('layout', 'mcfg::MCFG::add_ecam:entry', ok, 'the allocation entry is emitted as %s; specified base(8) segment(2) start bus(1) end bus(1) reserved(4)=0: %s' % (show_segs(segs), why), sp=cb['sp'],
           detail={'emitted': show_segs(segs)})

def generic_address(f, rep):
    """sdt::GenericAddress (the raw-bytes GAS used with Sdt::append): ACPI 6.4 table 5.1 for every access width"""
    ty = 'sdt::GenericAddress'
    adt = f.adt(ty)
    if not adt: rep.ob('anchor', ty, False, 'type not found'); return
    got = {fd['name']: (fd['off'], fd['size']) for fd in adt['variants'][0]['fields']}
    want = {'address_space_id': (0, 1), 'register_bit_width': (1, 1), 'register_bit_offset': (2, 1), 'access_size': (3, 1), 'address': (4, 8)}
    rep.ob('field-offset', ty, got == want and adt.get('repr_packed') and adt.get('repr_c'), '%s is laid out as %s, specified %s (repr(C, packed))' % (ty, got, want), sp=adt['sp'])
    fs = fns_of(f, ty)
    for ctor, space in (('io_port_address', 1), ('mmio_address', 0)):
        cb = fs.get(ctor)
        if cb is None: rep.ob('anchor', '%s::%s' % (ty, ctor), False, 'constructor not found'); continue
        for tv, sz in (('u8', 1), ('u16', 2), ('u32', 4), ('u64', 8)):
            I = new_interp(f)
            args = sym_args(I, cb)
            st = run_fn(I, cb['def'], args, tsub={'T': tv}); rep.analysed.update([cb['def']] + I.calls_seen)
            subj = '%s::%s<%s>' % (ty, ctor, tv)
            if I.tops or not isinstance(st, StructV): rep.undecided('layout', subj, I.tops, cb['sp']); continue
            exp = {'address_space_id': C(space), 'register_bit_width': C(8 * sz), 'register_bit_offset': ZERO, 'access_size': C({1: 1, 2: 2, 4: 3, 8: 4}[sz]), 'address': args[0]}
            bad = [k for k, v in exp.items() if not (is_term(st.fields.get(k)) and equal(strip_trunc(st.fields[k]), v)[0])]
            rep.ob('layout', subj, not bad, '%s sets %s; specified: space %d, width %d bits, offset 0, access size code %d, the address given' %
                   (subj, {k: show(st.fields[k]) if is_term(st.fields.get(k)) else repr(st.fields.get(k)) for k in bad}, space, 8 * sz, {1: 1, 2: 2, 4: 3, 8: 4}[sz]), sp=cb['sp'],
                   detail={'fields': {k: show(v) if is_term(v) else repr(v) for k, v in st.fields.items()}})

def fadt_ctor(f, rep):
    fb = fns_of(f, 'fadt::FADTBuilder')
    if 'new' not in fb: rep.ob('anchor', 'fadt::FADTBuilder::new', False, 'not found'); return
    I = new_interp(f)
    st = run_fn(I, fb['new']['def'], sym_args(I, fb['new'])); rep.analysed.add(fb['new']['def'])
    if I.tops or not isinstance(st, StructV): rep.undecided('layout', 'fadt::FADTBuilder::new', I.tops); return
    for nm, off, w in SPEC.FADT_FIELDS:
        v = st.fields.get(nm)
        want = SPEC.FADT_CTOR.get(nm, 0)
        if nm == 'checksum': continue
        if isinstance(want, bytes): ok = isinstance(v, SeqV) and [s[1] for s in v.segs] == [C(b) for b in want]
        elif isinstance(want, str): ok = (isinstance(v, SeqV) and v.segs == [('raw', ('a', want), C(w))]) or v == ('a', want)
        elif isinstance(v, SeqV): ok = all(s[0] == 'int' and s[1] == ZERO for s in v.segs)
        elif isinstance(v, StructV): ok = all((x == ZERO) or (isinstance(x, EnumV) and I.discr_of(x) == ZERO) for x in v.fields.values())
        else: ok = v == C(want)
        rep.ob('layout', 'fadt::FADTBuilder::new.%s' % nm, ok, 'FADT field %s after new is %r, specified %r' % (nm, v, want), sp=fb['new']['sp'])
