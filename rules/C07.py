"""C07 - PkgLength encodings are correct for every representable length.

Interval-partition + bit-slice analysis of `create_pkg_length(len, include_self)` for both values
of `include_self`.  The function's own comparisons partition 0 <= len into cells; on each cell the
pushed bytes are normalised to `const | bits[a..b) of (len + k)` and compared with the
specification: lead byte = follow-byte count in bits 7-6, bits 5-4 zero and bits 3-0 = length[0..4)
when follow bytes exist (a plain 6-bit value otherwise), follow bytes = length[4..12), [12..20),
[20..28); encoded length = len (+ number of prefix bytes when self-inclusive); the cell's range
shows the top slice holds all remaining bits (exact decode) and, for the inclusive form, that the
next shorter form could not hold length (shortest encoding).  Call sites: the argument is the
length of exactly the bytes emitted after the prefix, inclusive for objects, exclusive for the two
field-list entry forms."""
from sym import *
import sym
from model import *
from cells import *
from evalr import SeqV, norm_segs
from emit import emission

LEVEL = 'proof'
RULE = 'interval partition by the function\'s comparisons; bit-slice normal form of each emitted byte per cell; framing rule at every call site'
TRUSTED = ['bit-slice normaliser (engine/cells.py)', 'range arithmetic (engine/sym.py)']
ASSUMPTIONS = ['lengths >= 2^28 are outside the property (their wrap-around is a C18 site)']
EXPLANATION = __doc__

LIMIT = 1 << 28

def run(ctx, rep):
    f = ctx.facts
    name = 'aml::create_pkg_length'
    if name not in f.bodies:
        rep.ob('anchor', name, False, 'function not found'); return
    b = f.bodies[name]
    n = ('a', 'len'); sym.ATOM_RANGE['len'] = (0, (1 << 64) - 1)
    total_cells = 0
    for incl in (1, 0):
        I = new_interp(f, abstract=())
        r = byte_view(I, run_fn(I, name, [n, C(incl)]))
        rep.analysed.add(name)
        if I.tops or not isinstance(r, SeqV):
            rep.undecided('cells', '%s(include_self=%d)' % (name, incl), I.tops, b['sp']); continue
        segs = norm_segs(r.segs)
        ths = thresholds(segs_terms(segs), n)
        top = LIMIT - 1 - (4 if incl else 0)
        cs = make_cells(0, top, ths)
        for lo, hi in cs:
            total_cells += 1
            subj = '%s(include_self=%s) len in [%s..%s]' % (name, bool(incl), hex(lo), hex(hi))
            flat, unres = in_cell(segs, n, lo, hi)
            if unres: rep.ob('cells', subj, False, 'comparison not constant on the cell: %s' % show(unres[0]), sp=b['sp']); continue
            k = len(flat) - 1
            if not (0 <= k <= 3) or any(s[0] != 'int' or s[2] != 1 for s in flat):
                rep.ob('cells', subj, False, 'emits %s' % show_segs(flat), sp=b['sp']); continue
            L = add(n, C(k + 1 if incl else 0))           # specified encoded length
            if lo == hi:
                # single-value cell: the bytes are constants; compare with the specification's bytes for that length
                Lv = lo + (k + 1 if incl else 0)
                want = [Lv] if k == 0 else [(k << 6) | (Lv & 0xf)] + [(Lv >> (4 + 8 * j)) & 0xff for j in range(k)]
                got = [s[1][1] if s[1][0] == 'c' else None for s in flat]
                fits = Lv < (64 if k == 0 else 1 << (4 + 8 * k))
                rep.ob('cells', subj, got == want and fits, 'for length %d the specification gives %s, emitted %s' % (Lv, want, show_segs(flat)), sp=b['sp'],
                       detail={'cell': [lo, hi], 'follow_bytes': k, 'bytes': show_segs(flat), 'specified': want})
                if incl:
                    cap = 64 if k == 1 else (1 << (4 + 8 * (k - 1))) if k >= 1 else 0
                    rep.ob('shortest', subj, k == 0 or lo + k >= cap, 'a %d-byte prefix could already hold length %d' % (k, lo + k), sp=b['sp'], detail={'cell_low': lo, 'k': k})
                continue
            ranges = {n: (lo, hi)}
            try:
                parts = [bits_of(s[1], ranges) for s in flat]
            except NotSlices as ex:
                rep.ob('cells', subj, False, 'byte expression is not a bit-slice form: %s in %s' % (ex, show_segs(flat)), sp=b['sp']); continue
            ok = True; why = ''
            Lhi = hi + (k + 1 if incl else 0)
            if k == 0:
                c0, s0 = parts[0]
                ok = c0 == 0 and len(s0) == 1 and s0[0][0] == L and s0[0][1] == 0 and s0[0][3] == 0 and Lhi <= 63
                why = 'one-byte form must be the length itself and < 64 (bits 7-6 zero)'
            else:
                c0, s0 = parts[0]
                ok = c0 == (k << 6) and s0 == [(L, 0, 4, 0)]
                why = 'lead byte must be %d<<6 | length[0..4) with bits 5-4 zero' % k
                for j in range(1, k + 1):
                    cj, sj = parts[j]
                    width = 8
                    exp_lo = 4 + 8 * (j - 1)
                    good = cj == 0 and len(sj) == 1 and sj[0][0] == L and sj[0][1] == exp_lo and sj[0][3] == 0 and (sj[0][2] == 8 or (j == k and sj[0][2] <= 8))
                    if not good: ok = False; why = 'follow byte %d must be length[%d..%d)' % (j, exp_lo, exp_lo + 8)
                if Lhi >= (1 << (4 + 8 * k)): ok = False; why = 'length up to %s does not fit %d follow bytes' % (hex(Lhi), k)
            rep.ob('cells', subj, ok, '%s; emitted %s' % (why, show_segs(flat)), sp=b['sp'],
                   detail={'cell': [lo, hi], 'follow_bytes': k, 'bytes': show_segs(flat), 'encoded_length': show(L)})
            if incl:
                # shortest: with one byte fewer the self-inclusive length would not fit
                short_ok = True
                if k >= 1:
                    cap = 64 if k == 1 else (1 << (4 + 8 * (k - 1)))
                    short_ok = lo + k >= cap
                rep.ob('shortest', subj, short_ok, 'a %d-byte prefix could already hold length %d' % (k, lo + k), sp=b['sp'], detail={'cell_low': lo, 'k': k})
    rep.extra['cells'] = total_cells
    rep.floor('pkg-length cells', total_cells, 8)

    # ---- call sites: create_pkg_length(X, incl) immediately framing exactly X bytes
    sites = 0
    for st, im in f.impls_of('Aml'):
        segs, I, sink = emission(f, st)
        if I.tops: continue
        for i, s in enumerate(flatten_conds(segs)):
            pass
        sym.CTX = I.st.ranges          # what the serialiser's own path established about ranges (Vec lengths, refusals)
        try: sites += framing(rep, f, st, segs)
        finally: sym.CTX = {}
    # Scope::raw and the field-list entries are covered through their owners (Scope::raw in C15)
    rep.floor('pkg-length call sites (framed objects)', sites, 15)

def flatten_conds(segs): return segs

def framing(rep, f, st, segs):
    """every pkglen segment at top level covers exactly the segments that follow it"""
    n = 0
    for i, s in enumerate(segs):
        if s[0] == 'pkglen':
            n += 1
            rest = segs[i + 1:]
            covered = seqlen(rest)
            ok, w = equal(s[1], covered)
            rep.ob('framing', st, ok and s[2] == TRUE, 'PkgLength argument %s but %s bytes follow the prefix (include_self=%s)' % (show(s[1]), show(covered), show(s[2])),
                   detail={'argument': show(s[1]), 'following_bytes': show(covered)})
            rep.analysed.add(f.method('Aml', st, 'to_aml_bytes'))
        elif s[0] == 'rep':
            # field-list entries: name(4) or 0x00 then an exclusive PkgLength of the field width
            for sub_ in s[3]:
                if sub_[0] == 'cond':
                    for br in (sub_[2], sub_[3]):
                        for x in br:
                            if x[0] == 'pkglen':
                                n += 1
                                rep.ob('framing', st + ' field entry', x[2] == FALSE and br[-1] is x, 'field-list entry width must be an exclusive PkgLength ending the entry',
                                       detail={'entry': show_segs(list(br))})
    return n
