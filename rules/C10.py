"""C10 - resource descriptors and templates are correctly framed and valued.

Each descriptor type is evaluated through each of its public constructors on symbolic arguments; the
emission shape must equal the ACPI 6.4 production written over the constructor's parameters (tag,
length field, flag packing, little-endian values at the specified offsets; address-space range
length = max - min + 1 with Min/Max-fixed set).  Independently of the table, the *length field rule*
is checked on every descriptor shape: for a large item the 16-bit field after the tag, for a small
item the low three tag bits, must equal the symbolic size of everything that follows.  The template
is the Buffer production: BufferOp PkgLength Integer(payload size) children... 79 00, with the
PkgLength covering size operand + payload; since every child's length field is its true size and
children are contiguous, a walk by the descriptors' own lengths tiles the payload."""
from sym import *
import sym, sys, os
from model import *
from evalr import SeqV, StructV, EnumV, DynV, RefV, Cell
from rules.C06 import expected

LEVEL = 'other'
RULE = 'emission shape of constructor(args) == descriptor production; length-field == size of following segments'
TRUSTED = ['descriptor productions below (my reading of ACPI 6.5 section 6.4)', 'emission-shape interpreter']
ASSUMPTIONS = ['min <= max and a representable range size are caller preconditions (overflow of max-min+1 is a C18 site)']
EXPLANATION = __doc__

def P_(n): return ('a', n)
def opt(n): return ite(('isvar', ('a', n), 'Some'), ('a', n + '.Some.0'), ZERO)

def addr_space(tag, w, ctor):
    ln = 3 + 5 * w
    ty = {'new_memory': 0, 'new_io': 1, 'new_bus_number': 2}[ctor]
    tf = {'new_memory': lambda P: bor(scale(('discr', P_('cacheable')), 2), P_('read_write')), 'new_io': lambda P: C(3), 'new_bus_number': lambda P: ZERO}[ctor]
    tr = (lambda P: ZERO) if ctor == 'new_bus_number' else (lambda P: opt('translation'))
    iw = {2: 'u16', 4: 'u32', 8: 'u64'}[w]
    return [('op', tag), ('u16', lambda P: C(ln)), ('u8', lambda P: C(ty)), ('u8', lambda P: C(0x0c)), ('u8', tf),
            (iw, lambda P: ZERO), (iw, lambda P: P_('min')), (iw, lambda P: P_('max')), (iw, tr),
            (iw, lambda P: add(sub(P_('max'), P_('min')), ONE))]

PRODUCTIONS = [
    ('aml::Memory32Fixed', 'new', None, [('op', 0x86), ('u16', lambda P: C(9)), ('u8', lambda P: P_('read_write')), ('u32', lambda P: P_('base')), ('u32', lambda P: P_('length'))]),
    ('aml::IO', 'new', None, [('op', 0x47), ('u8', lambda P: C(1)), ('u16', lambda P: P_('min')), ('u16', lambda P: P_('max')), ('u8', lambda P: P_('alignment')), ('u8', lambda P: P_('length'))]),
    ('aml::Interrupt', 'new', None, [('op', 0x89), ('u16', lambda P: C(6)),
        ('u8', lambda P: bor(bor(bor(P_('consumer'), scale(P_('edge_triggered'), 2)), scale(P_('active_low'), 4)), scale(P_('shared'), 8))), ('u8', lambda P: C(1)), ('u32', lambda P: P_('number'))]),
    ('aml::Register', 'new', None, [('op', 0x82), ('u16', lambda P: C(12)), ('u8', lambda P: ('discr', P_('reg.address_space_id'))), ('u8', lambda P: P_('reg.register_bit_width')),
        ('u8', lambda P: P_('reg.register_bit_offset')), ('u8', lambda P: ('discr', P_('reg.access_size'))), ('u64', lambda P: P_('reg.address'))]),
    ('aml::ResourceTemplate', 'new', None, [('op', 0x11), ('pkglen',), ('integer', lambda P: add(('Ssum', ('len', P_('children')), 'children[i]', ('call', 'elen', P_('children[i]'))), C(2))),
        ('terms', 'children'), ('op', 0x79), ('op', 0x00)]),
]
for tag, w, t in ((0x88, 2, 'u16'), (0x87, 4, 'u32'), (0x8a, 8, 'u64')):
    for ctor in ('new_memory', 'new_io', 'new_bus_number'):
        PRODUCTIONS.append(('aml::AddressSpace<%s>' % t, ctor, t, addr_space(tag, w, ctor)))

def run(ctx, rep):
    f = ctx.facts
    n = 0
    for ty, ctor, targ, prod in PRODUCTIONS:
        base = ty.split('<')[0]
        cb = fns_of(f, base).get(ctor)
        d = f.method('Aml', ty, 'to_aml_bytes')
        subj = '%s::%s' % (ty, ctor)
        if cb is None or d is None:
            rep.ob('anchor', subj, False, 'constructor or impl Aml not found'); continue
        rep.analysed.update([cb['def'], d])
        I = new_interp(f)
        args = [I.sym_value(norm_ty(t).replace('T', targ) if targ and re.search(r'\bT\b', t) else norm_ty(t), nm) for nm, t in params_of(cb)]
        if targ:
            args = [I.sym_value(re.sub(r'\bT\b', targ, norm_ty(t)), nm) for nm, t in params_of(cb)]
        P = {nm: a for (nm, _), a in zip(params_of(cb), args)}
        obj = run_fn(I, cb['def'], args, tsub={'T': targ} if targ else None)
        if I.tops or not isinstance(obj, StructV): rep.undecided('production', subj, I.tops, cb['sp']); continue
        obj.ty = ty
        segs = emit_value(I, obj, ty)
        exp = expected(I, f, prod, P)
        if I.tops: rep.undecided('production', subj, I.tops, cb['sp']); continue
        sym.CTX = I.st.ranges
        try: ok, why = segs_equal(segs, exp, [c for c, _ in I.st.facts])
        finally: sym.CTX = {}
        n += 1
        rep.ob('production', subj, ok, '%s: %s' % (subj, why), sp=f.bodies[d]['sp'], detail={'emitted': show_segs(segs), 'specified': show_segs(exp)})
        if ty != 'aml::ResourceTemplate':
            length_rule(rep, subj, segs, f.bodies[d]['sp'])
    rep.floor('descriptor constructors', n, 14)

def length_rule(rep, subj, segs, sp):
    tag = segs[0]
    if tag[0] != 'int' or tag[1][0] != 'c' or tag[2] != 1:
        rep.ob('length-field', subj, False, 'descriptor does not start with a constant tag byte', sp=sp); return
    t = tag[1][1]
    if t & 0x80:
        # the 16-bit little-endian field after the tag, however the serialiser chunks it (one word or two bytes)
        val = ZERO; got = 0; k = 1
        while k < len(segs) and got < 2 and segs[k][0] == 'int' and got + segs[k][2] <= 2:
            val = add(val, mul(segs[k][1], C(1 << (8 * got)))); got += segs[k][2]; k += 1
        lf = val if got == 2 else None
        following = seqlen(segs[k:])
        ok = lf is not None and equal(lf, following)[0]
        rep.ob('length-field', subj, ok, 'large item declares %s bytes but %s follow the length field' % (show(lf) if lf is not None else None, show(following)), sp=sp,
               detail={'declared': show(lf) if lf is not None else None, 'following': show(following)})
    else:
        following = seqlen(segs[1:])
        ok = equal(C(t & 7), following)[0]
        rep.ob('length-field', subj, ok, 'small item tag %s declares %d bytes but %s follow' % (hex(t), t & 7, show(following)), sp=sp, detail={'declared': t & 7, 'following': show(following)})
