"""C03 - table bodies are exactly tiled by self-describing entries; counts agree.

Per entry kind and per table, on symbolic receivers (all parameters at once):
  type        : the segment the specification marks as the type code carries the specification's constant
  self-length : the segment marked length-of-self equals the symbolic size of the entry's own emission
                (entries without a length field: the emission has the fixed size of their type)
  counts      : every count field equals the number of elements the same emission repeats - directly when
                computed at serialisation time, by induction over the type's API when stored in a field
  offsets     : every array-offset field equals the position at which the array starts in the emission
  tiling      : a table serialises as header ++ fixed part (whose size is the specification's first-entry
                offset) ++ the entries of one vector, in order, with nothing after; every add operation
                appends exactly the entry it was given at the end of that vector (insertion order kept)
Together with C02 (length == bytes emitted) a walk from the first-entry offset by the entries' own
lengths visits exactly the added entries in order and lands on the end of the image."""
from sym import *
import sym, sys, os
from model import *
from tables import *
from emit import emission
from evalr import SeqV, StructV, EnumV, RefV, Cell
from layout_cmp import *
sys.path.insert(0, os.path.join(os.path.dirname(os.path.dirname(os.path.abspath(__file__))), 'spec'))
import layouts as SPEC

LEVEL = 'other'
RULE = 'tagged specification segments (type/len/count/offset) vs emission shape; inductive count invariants; vector-append rule for add operations'
TRUSTED = ['spec/layouts.py tags', 'C02 (length == bytes emitted)']
ASSUMPTIONS = ['entries whose size exceeds their own length field are a C18 matter (lengths compared under value-preserving casts)', 'foreign entry types given to add_structure<T> are out of reach']
EXPLANATION = __doc__

def rep_count(segs, path):
    """number of elements of vector `path` that the segments emit (0 if none)"""
    n = ZERO
    for s in segs:
        if s[0] == 'rep':
            if s[2] == path + '[i]': n = add(n, s[1])
            else: n = add(n, mul(s[1], rep_count(s[3], path))) if rep_count(s[3], path) != ZERO else n
        elif s[0] == 'cond':
            n = add(n, ite(s[1], rep_count(s[2], path), rep_count(s[3], path)))
        elif s[0] == 'raw' and s[1] == ('a', path): n = add(n, s[2])
    return n

def rep_offset(segs, path, base=ZERO):
    pos = base
    for s in segs:
        if s[0] == 'rep' and s[2] == path + '[i]': return pos
        if s[0] == 'cond':
            r = rep_offset(s[2], path, pos)
            if r is not None: return r
        pos = add(pos, seglen(s))
    return None

def seg_at_term(segs, off, width=None):
    """the segment starting at offset `off`; with a width, the integer field of that many bytes starting there, however
    the serialiser chunks it (one `word`, two `byte`s, part of an array literal): the little-endian combination"""
    lst, _ = with_offsets(segs)
    for k, (p, s) in enumerate(lst):
        if p != off: continue
        if width is None or s[0] != 'int' or s[2] == width: return s
        if s[2] > width:
            lo_, hi_ = rng(s[1])
            return ('int', s[1], width) if lo_ >= 0 and hi_ < (1 << (8 * width)) else s
        val = ZERO; got = 0
        for _, t in lst[k:]:
            if got >= width: break
            if t[0] != 'int' or got + t[2] > width: return s
            lo_, hi_ = rng(t[1])
            if lo_ < 0 or hi_ >= (1 << (8 * t[2])): return s
            val = add(val, scale(t[1], 1 << (8 * got))); got += t[2]
        return ('int', val, width) if got == width else s
    return None

def run(ctx, rep):
    f = ctx.facts
    n_entries = 0
    # ------------------------------------------------------------ entries
    seen_types = set()
    for (ty, ctor), sp in sorted(SPEC.STRUCTS.items(), key=lambda x: (x[0][0], x[0][1] or '')):
        if sp['table'] is None: continue
        n_entries += 1
        aml_ty = ty
        I = new_interp(f)
        if ctor and '::' in ctor:
            cb = f.bodies.get(ctor)
            if cb is None: rep.ob('anchor', ctor, False, 'function not found'); continue
            obj = run_fn(I, cb['def'], [I.sym_value(norm_ty(cb['self_ty']), 'self')] + [I.sym_value(norm_ty(t_), n_) for n_, t_ in params_of(cb)[1:]]); rep.analysed.add(cb['def'])
        elif sp.get('self_view') or ctor is None:
            obj = I.sym_value(ty, 'self')
        else:
            cb = fns_of(f, ty).get(ctor)
            if cb is None: rep.ob('anchor', '%s::%s' % (ty, ctor), False, 'constructor not found'); continue
            obj = run_fn(I, cb['def'], sym_args(I, cb)); rep.analysed.add(cb['def'])
        if I.tops or not isinstance(obj, StructV): rep.undecided('entry', '%s::%s' % (ty, ctor), I.tops); continue
        segs = emit_value(I, obj, aml_ty); rep.analysed.add(f.method('Aml', aml_ty, 'to_aml_bytes'))
        exp, tags = build(sp['items'], {})
        facts = [c for c, _ in I.st.facts]
        subj = '%s::%s' % (ty, ctor or 'self')
        sp_ = f.bodies[f.method('Aml', aml_ty, 'to_aml_bytes')]['sp']
        total = strip_trunc(seqlen(segs))
        tp = tagged_positions(exp, tags)
        has_len = False
        for pos, es, tag in tp:
            g = seg_at_term(segs, pos, es[2] if es[0] == 'int' else None)
            if tag == 'type':
                ok = g is not None and g[0] == 'int' and g[2] == es[2] and equal(g[1], es[1], facts)[0]
                rep.ob('type-code', subj, ok, 'type code at offset %s is %s, specified %s' % (show(pos), show_segs([g]) if g else None, show_segs([es])), sp=sp_,
                       detail={'emitted': show_segs([g]) if g else None, 'specified': show_segs([es])})
            elif tag == 'len':
                has_len = True
                ok = g is not None and g[0] == 'int' and g[2] == es[2] and equal(strip_trunc(g[1]), total, facts)[0]
                rep.ob('self-length', subj, ok, '%s writes length %s but emits %s bytes' % (ty, show(g[1]) if g else None, show(total)), sp=sp_, key='self-length:' + ty if ty not in seen_types or True else None,
                       detail={'length_field': show(g[1]) if g else None, 'emitted_bytes': show(total)})
        if not has_len and sp.get('size') is not None:
            ok = equal(total, C(sp['size']), facts)[0]
            rep.ob('fixed-size', subj, ok, '%s has no length field; its emission is %s bytes, the specification fixes %d' % (ty, show(total), sp['size']), sp=sp_, detail={'emitted_bytes': show(total), 'specified': sp['size']})
        if sp.get('size') is not None and has_len and ty not in ('srat::RintcAffinity', 'cedt::PortAssociation'):
            rep.ob('fixed-size', subj, equal(total, C(sp['size']), facts)[0], '%s emits %s bytes, specified %d' % (ty, show(total), sp['size']), sp=sp_, detail={'emitted_bytes': show(total)})
        seen_types.add(ty)
    rep.floor('entry constructors with a specification', n_entries, 42)
    # self-length on arbitrary reachable receivers: computed lengths must equal the emission size for every field
    # value; lengths kept in a field must be kept equal to it by every constructor and builder (induction over the API)
    done = set()
    for (ty, ctor), sp in sorted(SPEC.STRUCTS.items(), key=lambda x: (x[0][0], x[0][1] or '')):
        if sp['table'] is None or ty in done: continue
        done.add(ty)
        if f.method('Aml', ty, 'to_aml_bytes') is None: continue
        exp, tags = build(sp['items'], {})
        lenpos = [(p_, es) for p_, es, tg in tagged_positions(exp, tags) if tg == 'len']
        if not lenpos: continue
        pos, es = lenpos[0]
        I = new_interp(f)
        sv = I.sym_value(ty, 'self')
        segs = emit_value(I, sv, ty)
        sp_ = f.bodies[f.method('Aml', ty, 'to_aml_bytes')]['sp']
        if I.tops or segs is None:
            # receivers that are only serialisable in particular states (CFMWS) are covered by the constructor view above
            continue
        g = seg_at_term(segs, pos, es[2] if es[0] == 'int' else None)
        if g is None or g[0] != 'int': continue
        val = strip_trunc(g[1])
        if ty in ('srat::RintcAffinity', 'cedt::PortAssociation'): continue     # reported through the constructor view (known findings, one key each)
        if val[0] == 'a' and isinstance(val[1], str) and val[1].startswith('self.') and '.' not in val[1][5:]:
            fld = val[1][5:]
            def rhs(I2, v, ty=ty):
                s2 = emit_value(I2, v, ty)
                return None if s2 is None else seqlen(s2)
            from rules.C02 import entry_len_subst, _apply_elem_lengths
            res = prove_field_invariant(f, ty, fld, lambda I2, v: (_apply_elem_lengths(I2, rhs(I2, v), [('rqsc::ResourceStructure', 'length')]) if rhs(I2, v) is not None else None),
                                        entry_len_subst(f, [('rqsc::ResourceStructure', 'length')]) if ty != 'rqsc::ResourceStructure' else None)
            for d_ in res.analysed: rep.analysed.add(d_)
            for b_, kind, det in res.failures:
                rep.ob('self-length', '%s:%s' % (ty, b_['name']), False, '%s keeps its length in field %s; %s does not keep it equal to the bytes emitted (%s)' % (ty, fld, b_['name'], kind), sp=b_['sp'], detail=det if kind != 'undecided' else {'tops': str(det)})
            for i in range(res.obligations - len(res.failures)):
                rep.ob('self-length', '%s.%s:inductive#%d' % (ty, fld, i), True, detail={'type': ty, 'stored_in': fld})
        else:
            total = strip_trunc(seqlen(segs))
            ok = equal(val, total, [c for c, _ in I.st.facts])[0]
            if ty in ('srat::RintcAffinity', 'cedt::PortAssociation'): continue     # reported through the constructor view (known findings)
            if not ok and only_constructed(f, ty) and any(t_ == ty and c_ for (t_, c_) in SPEC.STRUCTS):
                # the length is kept in private state that nothing but the constructors writes: every receiver is a
                # constructor result, and those are decided in the constructor view above
                rep.ob('self-length', '%s:any receiver' % ty, True, detail={'through_constructors': True}); continue
            rep.ob('self-length', '%s:any receiver' % ty, ok, '%s computes length %s but emits %s bytes' % (ty, show(val), show(total)), sp=sp_, detail={'length_field': show(val), 'emitted_bytes': show(total)})

    # ------------------------------------------------------------ counts and offsets on symbolic receivers
    n_counts = 0
    for (ty, tagname), path in sorted(SPEC.VECTORS.items()):
        aml_ty = ty if f.method('Aml', ty, 'to_aml_bytes') else None
        if aml_ty is None: rep.ob('anchor', ty, False, 'no impl Aml'); continue
        items = SPEC.TABLES[ty]['items'] if ty in SPEC.TABLES else next(sp['items'] for (t, c), sp in SPEC.STRUCTS.items() if t == ty)
        exp, tags = build(items, {})
        tp = tagged_positions(exp, tags)
        I = new_interp(f)
        sv = reachable_self(f, ty, I) if ty in SPEC.TABLES else I.sym_value(ty, 'self')
        segs = emit_value(I, sv, aml_ty)
        sp_ = f.bodies[f.method('Aml', aml_ty, 'to_aml_bytes')]['sp']
        if I.tops: rep.undecided('count', ty, I.tops); continue
        facts = [c for c, _ in I.st.facts]
        for pos, es, tag in tp:
            if tag == 'count:' + tagname:
                n_counts += 1
                g = seg_at_term(segs, pos, es[2] if es[0] == 'int' else None)
                cnt = rep_count(segs, path)
                subj = '%s.%s' % (ty, tagname)
                if g is None or g[0] != 'int' or g[2] != es[2]:
                    rep.ob('count', subj, False, 'no %d-byte count field at offset %s' % (es[2], show(pos)), sp=sp_); continue
                val = strip_trunc(g[1])
                if val[0] == 'a' and val[1].startswith('self.') and not equal(val, cnt, facts)[0]:
                    stored_count(f, rep, ty, val[1][5:], path, subj, sp_)
                else:
                    ok = equal(val, cnt, facts)[0]
                    rep.ob('count', subj, ok, 'count field holds %s but %s elements are emitted' % (show(val), show(cnt)), sp=sp_, detail={'count_field': show(val), 'elements': show(cnt)})
            elif tag == 'offset:' + tagname:
                g = seg_at_term(segs, pos, es[2] if es[0] == 'int' else None)
                ro = rep_offset(segs, path)
                subj = '%s.%s offset' % (ty, tagname)
                if ro is None and ty in SPEC.TABLES: ro = rep_offset(segs, SPEC.ENTRY_VECTORS.get(ty, path))
                ok = g is not None and g[0] == 'int' and ro is not None and equal(strip_trunc(g[1]), ro, facts)[0]
                rep.ob('offset', subj, ok, 'offset field holds %s but the array starts at %s' % (show(g[1]) if g else None, show(ro) if ro is not None else None), sp=sp_,
                       detail={'offset_field': show(g[1]) if g else None, 'array_position': show(ro) if ro is not None else None})
    rep.floor('count fields', n_counts, 14)

    # ------------------------------------------------------------ tiling of tables
    n_tab = 0
    for ty, vec in sorted(SPEC.ENTRY_VECTORS.items()):
        sp = SPEC.TABLES.get(ty)
        segs, I, _ = emission(f, ty)
        d = f.method('Aml', ty, 'to_aml_bytes'); sp_ = f.bodies[d]['sp']; rep.analysed.add(d)
        if I.tops: rep.undecided('tiling', ty, I.tops); continue
        n_tab += 1
        last = segs[-1] if segs else None
        ok = last is not None and last[0] == 'rep' and last[2] == vec + '[i]' and last[1] == ('len', ('a', vec))
        rep.ob('tiling', ty + ':body is the entry vector', ok, '%s must end with the entries of %s in order and nothing after: %s' % (ty, vec, show_segs(segs[-2:])), sp=sp_, detail={'tail': show_segs(segs[-1:])[:200]})
        fixed = seqlen(segs[:-1]) if ok else None
        if ok and sp and sp.get('first_entry') is not None:
            rep.ob('tiling', ty + ':first entry offset', fixed == C(sp['first_entry']), 'entries of %s start at %s, specified %d' % (ty, show(fixed), sp['first_entry']), sp=sp_, detail={'first_entry': show(fixed)})
        if ok and ty in SPEC.FIXED_STEP:
            step = seqlen(list(last[3]))
            rep.ob('tiling', ty + ':fixed entry size', step == C(SPEC.FIXED_STEP[ty]), 'entries of %s are %s bytes, specified %d' % (ty, show(step), SPEC.FIXED_STEP[ty]), sp=sp_)
    rep.floor('tables with a variable body', n_tab, 12)
    # every add path appends exactly its argument at the end of the entry vector
    n_add = 0
    for T in all_tables(f):
        vec = SPEC.ENTRY_VECTORS.get(T.ty)
        if not vec: continue
        fld = vec[5:]
        for s in T.steps:
            rep.analysed.add(s.fn['def'])
            if s.tops: rep.undecided('append', s.fn['def'], s.tops, s.fn['sp']); continue
            pre = s.pre.fields[fld]; post = s.post.fields[fld]
            if repr(pre) == repr(post): continue      # not an add operation
            n_add += 1
            ok = isinstance(post, SeqV) and not post.stores and post.segs[:len(pre.segs)] == pre.segs and len(post.segs) == len(pre.segs) + 1 and post.segs[-1][0] == 'elem'
            what = ''
            if ok:
                el = post.segs[-1][1]
                argvals = [a.place.get() if isinstance(a, RefV) else a for a in s.args]
                ok = any(el is a for a in argvals) or (isinstance(el, StructV) and s.fn['name'] in ('add_ecam', 'add_isa_string', 'add_mmu_node')) or is_term(el)
                if not ok and isinstance(el, StructV):
                    # a private wrapper around the argument (e.g. its little-endian bytes): same bytes as the argument itself
                    from evalr import int_bits, Top as _Top
                    try:
                        eb = s.I.as_bytes(el, el.ty)
                    except Exception:
                        eb = None
                    if eb is not None and not isinstance(eb, _Top):
                        for (pn, pt), a in zip(params_of(s.fn)[1:], argvals):
                            w_ = int_bits(norm_ty(pt))
                            if w_ and is_term(a) and segs_equal(eb, [('int', a, w_ // 8)])[0]: ok = True
                if not ok and isinstance(el, (StructV, EnumV)):
                    # a private wrapper (newtype, enum of the entry kinds) that serialises as exactly the argument does
                    n0 = len(s.I.tops)
                    try:
                        eb = emit_value(s.I, el, el.ty)
                    except Exception:
                        eb = None
                    if eb is not None and len(s.I.tops) == n0:
                        for (pn, pt), a in zip(params_of(s.fn)[1:], argvals):
                            if not isinstance(a, (StructV, EnumV)): continue
                            try:
                                ab = emit_value(s.I, a, a.ty)
                            except Exception:
                                ab = None
                            if ab is not None and len(s.I.tops) == n0 and segs_equal(eb, ab)[0]: ok = True
                    del s.I.tops[n0:]
                what = 'the pushed element is not the entry passed in'
            rep.ob('append', s.fn['def'], ok, '%s must append exactly one entry at the end of %s (%s)' % (s.fn['name'], vec, what or repr(post)[:120]), sp=s.fn['sp'], detail={'vector_after': repr(post)[:160]})
    rep.floor('add operations', n_add, 29)
    # element vectors of entry structures (interleave targets, XOR maps, SMBIOS handles, resources, error data): a public
    # `add`-style method with one argument appends exactly that argument to exactly one vector of the structure
    tabs_ = {T.ty for T in all_tables(f)}
    own_rules = ('hmat::SystemLocality', 'sdt::Sdt', 'aml::PackageBuilder', 'Checksum')
    n_el = 0
    for d_, b_ in sorted(f.bodies.items()):
        if not is_pub(b_) or b_.get('trait') or b_.get('derived') or not b_.get('self_ty') or b_.get('body') is None: continue
        st_ = norm_ty(b_['self_ty']).split('<')[0]
        adt_ = f.adt(st_)
        if not adt_ or st_ in tabs_ or st_ in own_rules or classify(b_, b_['self_ty']) != 'mut': continue
        vecs_ = [fd['name'] for fd in adt_['variants'][0]['fields'] if fd['ty'].startswith('alloc::vec::Vec<')]
        ps_ = params_of(b_)
        if not vecs_ or len(ps_) != 2: continue
        I = new_interp(f)
        sv = I.sym_value(st_, 'self'); pre = {v: list(sv.fields[v].segs) for v in vecs_ if isinstance(sv.fields.get(v), SeqV)}
        arg = I.sym_value(norm_ty(ps_[1][1]), ps_[1][0])
        run_fn(I, b_['def'], [RefV(Cell(sv), True), arg]); rep.analysed.add(b_['def']); n_el += 1
        if I.tops: rep.undecided('element-append', b_['def'], I.tops, b_['sp']); continue
        grown = [v for v in pre if sv.fields[v].segs != pre[v] or sv.fields[v].stores]
        ok = len(grown) == 1
        what = 'it changes %d vectors' % len(grown)
        if ok:
            post = sv.fields[grown[0]]
            new = post.segs[len(pre[grown[0]]):]
            argv = arg.place.get() if isinstance(arg, RefV) else arg
            ok = post.segs[:len(pre[grown[0]])] == pre[grown[0]] and not post.stores and len(new) == 1 and (
                (new[0][0] == 'elem' and (new[0][1] is argv or (is_term(new[0][1]) and is_term(argv) and equal(strip_trunc(new[0][1]), argv)[0]) or repr(new[0][1]) == repr(argv)))
                or (new[0][0] == 'int' and is_term(argv) and equal(strip_trunc(new[0][1]), argv)[0]))
            what = 'the vector %s ends with %s' % (grown[0], show_segs(new)[:100] if post.is_bytes() else repr(new)[:100])
        rep.ob('element-append', b_['def'], ok, '%s must append exactly its argument to one vector of %s (%s)' % (b_['name'], st_, what), sp=b_['sp'])
    rep.floor('element-append operations of entry structures', n_el, 5)
    # SLIT: N localities <-> N*N cells, fixed after construction
    slit = fns_of(f, 'slit::SLIT')
    if 'new' in slit:
        I = new_interp(f); st = run_fn(I, slit['new']['def'], sym_args(I, slit['new']))
        N = ('a', 'localities')
        ok = not I.tops and equal(seqlen(st.fields['entries'].segs), mul(N, N))[0] and st.fields['localities'] == N
        rep.ob('count', 'slit::SLIT.localities', ok, 'SLIT must hold localities^2 cells for the locality count it declares', sp=slit['new']['sp'])
        T = [t for t in all_tables(f) if t.ty == 'slit::SLIT'][0]
        for s in T.steps:
            same = seqlen(s.post.fields['entries'].segs) == seqlen(s.pre.fields['entries'].segs) and s.post.fields['localities'] == s.pre.fields['localities']
            rep.ob('count', 'slit::SLIT.localities:' + s.fn['name'], same and not s.tops, '%s changes the number of cells or the locality count' % s.fn['name'], sp=s.fn['sp'])

def stored_count(f, rep, ty, field, path, subj, sp_):
    """count kept in a field: show by induction over the type's API that it equals the number of elements emitted"""
    fld = field.split('.')
    def rhs(I, v):
        segs = emit_value(I, v, ty)
        if segs is None: return None
        # rename: the emission of a value uses the same vector naming when it is a symbolic receiver;
        # for constructor results the vector is concrete: count its elements directly
        vec = v
        for p in path[5:].split('.'):
            if isinstance(vec, StructV): vec = vec.fields.get(p)
        if isinstance(vec, SeqV): return seqlen(vec.segs) if not vec.is_bytes() else None
        return rep_count(segs, path)
    if len(fld) == 1:
        res = prove_field_invariant(f, ty, fld[0], rhs)
    else:
        # nested (RHCT header.rhct_nodes): delta form over the table's own steps
        res = InvariantResult()
        for T in [t for t in all_tables(f) if t.ty == ty]:
            for s in T.ctors:
                v = get_path(s.post, fld); r = rhs(s.I, s.post); res.obligations += 1; res.analysed.append(s.fn['def'])
                if s.tops or r is None or not equal(strip_trunc(v), r)[0]: res.ok = False; res.failures.append((s.fn, 'ctor', {'field': show(v), 'elements': show(r) if r is not None else None}))
            for s in T.steps:
                d1 = strip_trunc(sub(get_path(s.post, fld), get_path(s.pre, fld)))
                r0, r1 = rhs(s.I, s.pre), rhs(s.I, s.post); res.obligations += 1; res.analysed.append(s.fn['def'])
                if s.tops or r0 is None or r1 is None or not equal(d1, sub(r1, r0))[0]:
                    res.ok = False; res.failures.append((s.fn, 'step', {'delta_field': show(d1), 'delta_elements': show(sub(r1, r0)) if r0 is not None and r1 is not None else None}))
    for d in res.analysed: rep.analysed.add(d)
    if res.obligations == 0: rep.ob('count', subj, False, 'stored count %s.%s: nothing to analyse' % (ty, field), sp=sp_)
    for b, kind, det in res.failures:
        rep.ob('count', '%s:%s' % (subj, b['name']), False, '%s keeps its count in %s, which %s does not keep equal to the number of elements (%s)' % (ty, field, b['name'], kind), sp=b['sp'], detail=det)
    for i in range(res.obligations - len(res.failures)):
        rep.ob('count', '%s:inductive#%d' % (subj, i), True, detail={'type': ty, 'field': field, 'vector': path})
