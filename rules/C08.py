"""C08 - integer constants round-trip and use the narrowest AML encoding.

Interval-partition analysis of the cascading `impl Aml for u8/u16/u32/u64/usize`.  The emission
shape of each impl (callee chain inlined) is a tree of comparisons on the value; the comparison
constants partition the type's range into cells, on each cell the shape collapses to a flat byte
list which must be the specification's:  {0}->00  {1}->01  [2,2^8)->0A b  [2^8,2^16)->0B le16
[2^16,2^32)->0C le32  [2^32,2^64)->0E le64, with the value itself (no truncation residue) in the
payload.  Every entry type must yield the restriction of this one table, hence equal bytes for
equal values whichever type carried them."""
from sym import *
import sym
from model import *
from cells import *
from emit import emission

LEVEL = 'proof'
RULE = 'interval partition of the value range by the code\'s own comparisons; per-cell identity with the specification table'
TRUSTED = ['interval/range arithmetic of engine/sym.py', 'emission-shape interpreter']
ASSUMPTIONS = ['64-bit little-endian target: the usize impl is analysed for the cfg arm the build selects (pointer_width recorded in evidence)']
EXPLANATION = __doc__

TYPES = [('u8', 8), ('u16', 16), ('u32', 32), ('u64', 64), ('usize', 64)]
SPEC = [(0, 0, lambda x: [('int', C(0x00), 1)]),
        (1, 1, lambda x: [('int', C(0x01), 1)]),
        (2, 0xff, lambda x: [('int', C(0x0a), 1), ('int', x, 1)]),
        (0x100, 0xffff, lambda x: [('int', C(0x0b), 1), ('int', x, 2)]),
        (0x10000, 0xffffffff, lambda x: [('int', C(0x0c), 1), ('int', x, 4)]),
        (0x100000000, (1 << 64) - 1, lambda x: [('int', C(0x0e), 1), ('int', x, 8)])]

def spec_for(lo, hi):
    for a, b, fn in SPEC:
        if a <= lo and hi <= b: return fn
    return None

def run(ctx, rep):
    f = ctx.facts
    found = 0
    rep.extra['pointer_width'] = f.cfg.get('pointer_width')
    for ty, bits in TYPES:
        if f.method('Aml', ty, 'to_aml_bytes') is None:
            rep.ob('anchor', 'impl Aml for ' + ty, False, 'no impl Aml for %s' % ty); continue
        found += 1
        segs, I, sink = emission(f, ty, abstract=())
        for c in I.calls_seen: rep.analysed.add(c)
        if I.tops: rep.undecided('table', 'impl Aml for ' + ty, I.tops); continue
        x = ('a', 'self')
        hi = (1 << bits) - 1
        ths = thresholds(segs_terms(segs), x) | {a for a, b, _ in SPEC} | {b + 1 for a, b, _ in SPEC}
        cs = make_cells(0, hi, ths)
        rep.extra.setdefault('cells', {})[ty] = len(cs)
        for lo, up in cs:
            subj = 'impl Aml for %s [%s..%s]' % (ty, hex(lo), hex(up))
            flat, unres = in_cell(segs, x, lo, up)
            if unres:
                rep.ob('table', subj, False, 'a comparison is not constant on the cell: %s' % show(unres[0])); continue
            fn = spec_for(lo, up)
            if fn is None:
                rep.ob('table', subj, False, 'cell straddles a specification boundary'); continue
            want = fn(x if lo != up else C(lo))
            got = [('int', s[1] if lo != up or s[1][0] == 'c' else s[1], s[2]) for s in flat]
            # on a single-value cell the payload may be the constant or the atom
            norm = lambda ss: [('int', C(lo) if (lo == up and t == x) else t, w) for (_, t, w) in ss]
            ok = norm(got) == norm(want)
            rep.ob('table', subj, ok, 'on %s..%s the encoder emits %s, specified %s' % (hex(lo), hex(up), show_segs(flat), show_segs(want)),
                   detail={'cell': [hex(lo), hex(up)], 'emitted': show_segs(flat), 'specified': show_segs(want)})
    rep.floor('integer impl Aml', found, 5)
