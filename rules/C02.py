"""C02 - declared table length equals the number of bytes emitted.

For every structure with a Length field the emission shape E (computed by abstract interpretation
of the serialiser, for all inputs at once) is measured as a linear form |E| over the input atoms
(vector lengths, string lengths, option tags) and compared with the value of the Length field:
  O-field : the 4-byte little-endian segment at offset 4 of the emission is the header's length field
  O-init  : after every public constructor            L0 == |E0|
  O-step  : for every public mutator, symbolically    L' - L == |E'| - |E|
so L == |E| holds after every finite sequence of operations (induction).  Length fields that an
entry type maintains itself (RQSC controllers and resources) are proven the same way and then used
as rewrite facts.  RSDP (36 at offset 20), FACS (64 at offset 4), FADT and the generic Sdt are
checked against their own emissions."""
from sym import *
import sym
from model import *
from tables import *
from evalr import SeqV, StructV, RefV, Cell
import copy

LEVEL = 'other'
RULE = 'length agreement: symbolic size of the emission shape vs value of the length field, inductively over the public API'
TRUSTED = ['Lin/ite decision procedure (engine/sym.py equal)', 'emission-shape interpreter (engine/evalr.py)']
ASSUMPTIONS = ['narrowing casts of lengths are value-preserving (tables < 4 GiB; C18 owns the narrowing sites)',
               'foreign Aml+IntoBytes types passed to MADT/HEST add_structure<T> serialise to size_of::<T>() bytes (C14 clause raw = serialised for crate types)',
               'callers do not write the pub fields of FADTBuilder/Rsdp/FACS directly']
EXPLANATION = __doc__

# entry types that store their own length in a field (proved inductively, then used as facts)
STORED_LEN = [('rqsc::ResourceStructure', 'length'), ('rqsc::QoSController', 'length')]

def entry_len_subst(facts, proven):
    """substitution {atom arg.field -> |E(arg)|} for arguments whose type has a proven stored length"""
    def fn(I, args):
        m = {}
        def visit(v):
            if isinstance(v, RefV): v = v.place.get()
            if isinstance(v, StructV):
                for (ty, fld) in proven:
                    if v.path == ty and is_term(v.fields.get(fld)) and v.fields[fld][0] == 'a':
                        segs = emit_value(I, v, ty)
                        if segs is not None: m[v.fields[fld]] = seqlen(segs)
                for x in v.fields.values(): visit(x)
            elif isinstance(v, SeqV) and not v.is_bytes():
                for s in v.segs:
                    if s[0] == 'elem': visit(s[1])
        for a in args: visit(a)
        return m
    return fn

def elem_len_rewrite(facts, proven, t):
    """inside sums over vector elements: V[i].length -> |E(V[i])| for proven types (applied on atoms by name)"""
    return t

def run(ctx, rep):
    f = ctx.facts
    # ---- stored entry lengths (inner first)
    proven = []
    for ty, fld in STORED_LEN:
        if not f.adt(ty):
            rep.ob('anchor', ty, False, 'entry type %s not found' % ty); continue
        def rhs(I, v, ty=ty):
            segs = emit_value(I, v, ty)
            if segs is None: return None
            t = seqlen(segs)
            return _apply_elem_lengths(I, t, proven)
        res = prove_field_invariant(f, ty, fld, rhs, entry_len_subst(f, list(proven)))
        for d in res.analysed: rep.analysed.add(d)
        if res.obligations == 0:
            rep.ob('stored-length', ty, False, 'no constructor or mutator of %s analysed' % ty)
        for b, kind, det in res.failures:
            if kind == 'undecided': rep.undecided('stored-length', b['def'], det, b['sp'])
            else: rep.ob('stored-length', b['def'], False, '%s.%s does not track the bytes %s emits (%s)' % (ty, fld, ty, kind), sp=b['sp'], detail=det)
        for i in range(res.obligations - len(res.failures)):
            rep.ob('stored-length', '%s.%s#%d' % (ty, fld, i), True, detail={'type': ty, 'field': fld})
        if res.ok: proven.append((ty, fld))

    # ---- tables with a standard header
    tables = all_tables(f)
    rep.floor('tables with a TableHeader', len(tables), 18)
    n_steps = 0
    for T in tables:
        for s in T.ctors + T.steps:
            rep.analysed.add(s.fn['def'])
            for c in s.I.calls_seen: rep.analysed.add(c)
        for s in T.ctors:
            subj = s.fn['def']
            if s.tops or s.E_post is None:
                rep.undecided('O-init', subj, s.tops, s.fn['sp']); continue
            Lseg = seg_at(s.E_post, 4, 4)
            hdr_len = T.header(s.post).fields['length']
            rep.ob('O-field', subj, Lseg is not None and Lseg[1] == hdr_len, 'the 4-byte segment at offset 4 of the image is not the header length field', sp=s.fn['sp'],
                   detail={'segment_at_4': show(Lseg[1]) if Lseg else None})
            if Lseg is None: continue
            total = strip_trunc(seqlen(s.E_post)); L = strip_trunc(Lseg[1])
            ok, w = equal(L, total, [c for c, _ in s.I.st.facts])
            rep.ob('O-init', subj, ok, 'declared length %s but the image has %s bytes' % (show(L), show(total)), sp=s.fn['sp'],
                   detail={'declared': show(L), 'emitted': show(total), 'witness': w})
        for s in T.steps:
            subj = s.fn['def']; n_steps += 1
            if s.tops or s.E_post is None or s.E_pre is None:
                rep.undecided('O-step', subj, s.tops, s.fn['sp']); continue
            m = entry_len_subst(f, proven)(s.I, s.args)
            L0 = T.header(s.pre).fields['length']; L1 = T.header(s.post).fields['length']
            dL = strip_trunc(subst(sub(L1, L0), m))
            dE = strip_trunc(subst(sub(seqlen(s.E_post), seqlen(s.E_pre)), m))
            dE = _apply_elem_lengths(s.I, dE, proven)
            dL = _apply_elem_lengths(s.I, dL, proven)
            dL, dE = raw_equiv(dL), raw_equiv(dE)
            # induction hypothesis in full form (needed where an assertion on the length selects the reachable states)
            facts_ = [c for c, _ in s.facts] + [cmp('eq', L0, strip_trunc(seqlen(s.E_pre)))]
            ok, w = equal(dL, dE, facts_)
            rep.ob('O-step', subj, ok, 'the operation adds %s to the declared length but %s bytes to the image' % (show(dL), show(dE)), sp=s.fn['sp'],
                   detail={'delta_declared': show(dL), 'delta_emitted': show(dE), 'witness': w})
    rep.floor('public table mutators', n_steps, 40)

    # ---- FADT: builder chain + finalize
    fb = fns_of(f, 'fadt::FADTBuilder')
    if 'new' in fb and 'finalize' in fb:
        I = new_interp(f)
        st = run_fn(I, fb['new']['def'], sym_args(I, fb['new']))
        fin = run_fn(I, fb['finalize']['def'], [st])
        rep.analysed.update([fb['new']['def'], fb['finalize']['def']])
        segs = emit_value(I, fin, 'fadt::FADT') if isinstance(fin, StructV) else None
        if segs is None or I.tops: rep.undecided('O-init', 'fadt::FADTBuilder::new', I.tops, fb['new']['sp'])
        else:
            Lseg = seg_at(segs, 4, 4)
            ok = Lseg is not None and equal(Lseg[1], seqlen(segs))[0]
            rep.ob('O-init', 'fadt::FADTBuilder::new', ok, 'FADT declares %s, emits %s' % (show(Lseg[1]) if Lseg else None, show(seqlen(segs))), sp=fb['new']['sp'],
                   detail={'declared': show(Lseg[1]) if Lseg else None, 'emitted': show(seqlen(segs))})
        for name, b in sorted(fb.items()):
            if not is_pub(b) or classify(b, 'fadt::FADTBuilder') != 'builder': continue
            I = new_interp(f)
            sv = I.sym_value('fadt::FADTBuilder', 'self'); pre_len = sv.fields['length']
            post = run_fn(I, b['def'], [sv] + [I.sym_value(norm_ty(t), n) for n, t in params_of(b)[1:]])
            rep.analysed.add(b['def'])
            if not isinstance(post, StructV) or I.tops: rep.undecided('O-step', b['def'], I.tops, b['sp']); continue
            rep.ob('O-step', b['def'], post.fields['length'] == pre_len, 'builder changes the length field of a fixed-size table', sp=b['sp'], detail={'length_after': show(post.fields['length'])})
    else:
        rep.ob('anchor', 'fadt::FADTBuilder', False, 'FADTBuilder::new/finalize not found')

    # ---- header-less fixed structures
    for ty, off, ctor in (('rsdp::Rsdp', 20, 'new'), ('facs::FACS', 4, 'new')):
        fs = fns_of(f, ty)
        if ctor not in fs: rep.ob('anchor', ty, False, '%s::%s not found' % (ty, ctor)); continue
        I = new_interp(f)
        st = run_fn(I, fs[ctor]['def'], sym_args(I, fs[ctor]))
        rep.analysed.add(fs[ctor]['def'])
        segs = emit_value(I, st, ty) if isinstance(st, StructV) else None
        if segs is None or I.tops: rep.undecided('O-fixed', fs[ctor]['def'], I.tops, fs[ctor]['sp']); continue
        Lseg = seg_at(segs, off, 4)
        ok = Lseg is not None and equal(Lseg[1], seqlen(segs))[0]
        rep.ob('O-fixed', fs[ctor]['def'], ok, '%s declares %s at offset %d, emits %s bytes' % (ty, show(Lseg[1]) if Lseg else None, off, show(seqlen(segs))), sp=fs[ctor]['sp'],
               detail={'declared': show(Lseg[1]) if Lseg else None, 'emitted': show(seqlen(segs)), 'offset': off})

    # ---- generic table (Sdt): every growth path rewrites bytes 4..8 with the new total
    sdt_len(f, rep)

def raw_equiv(t):
    """O-raw: for a generic T: Aml + IntoBytes the raw form has the size of the serialised form
    (decided for every crate type by C14's raw = serialised rule; foreign types are an assumption)"""
    def f(x):
        if x[0] == 'call' and x[1] == 'size_of_val': return ('call', 'elen', x[2])
        return None
    return rebuild(t, f)

def _apply_elem_lengths(I, t, proven):
    """rewrite V[i].<len field> atoms of proven entry types to |E(V[i])| (elements of symbolic vectors)"""
    if not proven: return t
    m = {}
    for a in atoms(t):
        nm = a[1]
        if not isinstance(nm, str): continue
        for ty, fld in proven:
            if nm.endswith('.' + fld):
                base = nm[:-len(fld) - 1]
                st_ = I.type_of_path(base)
                if st_ is not None and st_ != ty: continue       # the atom belongs to an object of another type
                v = I.sym_value(ty, base)
                if isinstance(v, StructV) and v.fields.get(fld) == a:
                    segs = emit_value(I, v, ty)
                    if segs is not None:
                        m[a] = _apply_elem_lengths(I, seqlen(segs), [p for p in proven if p != (ty, fld)])
    return subst(t, m) if m else t

def read_le(seq, off, width):
    """value of seq[off..off+width] as LE integer, looking through stores (newest first)"""
    for (i, v) in reversed(seq.stores):
        if isinstance(i, tuple) and i and i[0] == 'range':
            if i[1] == C(off) and i[2] == C(off + width) and len(v) == 1 and v[0][0] == 'int' and v[0][2] == width: return v[0][1]
            lo, hi = i[1], i[2]
            if cmp('le', hi, C(off)) == TRUE or cmp('le', C(off + width), lo) == TRUE: continue
            return None
        elif isinstance(i, tuple) and i and i[0] == 'within': return None
        else:
            if cmp('lt', i, C(off)) == TRUE or cmp('le', C(off + width), i) == TRUE: continue
            return None
    s = seg_at(seq.segs, off, width)
    return s[1] if s else None

def sdt_len(f, rep):
    fs = fns_of(f, 'sdt::Sdt')
    if 'new' not in fs: rep.ob('anchor', 'sdt::Sdt', False, 'Sdt::new not found'); return
    I = new_interp(f)
    st = run_fn(I, fs['new']['def'], sym_args(I, fs['new']))
    rep.analysed.add(fs['new']['def'])
    if not isinstance(st, StructV) or I.tops: rep.undecided('O-init', 'sdt::Sdt::new', I.tops, fs['new']['sp'])
    else:
        data = st.fields['data']
        L = read_le(data, 4, 4); tot = seqlen(data.segs)
        sym.CTX = I.st.ranges
        rep.ob('Sdt-minlen', 'sdt::Sdt::new', cmp('le', C(36), tot) == TRUE or equal(ite(cmp('le', C(36), tot), ONE, ZERO), ONE, [c for c, _ in I.st.facts])[0],
               'Sdt::new can build a table shorter than its 36-byte header', sp=fs['new']['sp'], detail={'length': show(tot), 'facts': [show(c) for c, _ in I.st.facts]})
        sym.CTX = {}
        ok = L is not None and equal(L, tot, [c for c, _ in I.st.facts])[0]
        rep.ob('O-init', 'sdt::Sdt::new', ok, 'Sdt::new declares %s but holds %s bytes' % (show(L) if L else None, show(tot)), sp=fs['new']['sp'],
               detail={'declared': show(L) if L else None, 'held': show(tot), 'facts': [show(c) for c, _ in I.st.facts]})
    for name, b in sorted(fs.items()):
        if not is_pub(b) or classify(b, 'sdt::Sdt') != 'mut': continue
        for variant in _generic_variants(b):
            I = new_interp(f)
            sv = I.sym_value('sdt::Sdt', 'self')
            pre_len = seqlen(sv.fields['data'].segs)
            I.st.ranges[pre_len] = (36, (1 << 63) - 1)      # invariant len >= 36, shown below (Sdt-minlen)
            args = [_sdt_arg(I, n, t, variant) for n, t in params_of(b)[1:]]
            run_fn(I, b['def'], [RefV(Cell(sv), True)] + args, tsub={'T': variant} if variant else None)
            rep.analysed.add(b['def'])
            subj = b['def'] + (('<%s>' % variant) if variant else '')
            if I.tops: rep.undecided('O-step', subj, I.tops, b['sp']); continue
            data = sv.fields['data']
            post_len = seqlen(data.segs)
            grew = strip_trunc(sub(post_len, pre_len))
            rep.ob('Sdt-minlen', subj, rng(grew)[0] >= 0, 'operation may shrink the table below its header', sp=b['sp'], detail={'growth': show(grew)})
            if grew == ZERO:
                # non-growing operation: bytes 4..8 may be overwritten by the caller (write at offset 4 is the API's purpose)
                rep.ob('O-step', subj, True, detail={'growth': '0'}); continue
            sym.CTX = I.st.ranges      # the len >= 36 invariant decides that the new bytes lie past the header
            L = read_le(data, 4, 4)
            sym.CTX = {}
            ok = L is not None and equal(strip_trunc(L), strip_trunc(post_len))[0]
            rep.ob('O-step', subj, ok, 'after %s the table holds %s bytes but bytes 4..8 hold %s' % (name, show(post_len), show(L) if L else 'an unresolved value'), sp=b['sp'],
                   detail={'held': show(post_len), 'declared': show(L) if L else None})

def _generic_variants(b):
    if b.get('generics', 0) and any(re.match(r'^[A-Z]$', t) for _, t in params_of(b)): return ['u8', 'u16', 'u32', 'u64']
    return [None]

def _sdt_arg(I, n, t, variant):
    t = norm_ty(t)
    if variant and re.match(r'^[A-Z]$', t): return I.sym_value(variant, n)
    return I.sym_value(t, n)
