"""C18 - counts and sizes too large for their field are refused, never wrapped.

Value-range analysis of every place where a count / size / length can lose information on its way
into the image.  Sites are enumerated from the typed program by abstract interpretation of every
serialiser (on a symbolic receiver carrying its type's private-field invariants) and of every public
constructor / mutator / builder (on symbolic arguments):
  narrowing   : a narrowing integer cast whose operand range, under the dominating guards (assert!,
                checked_*().unwrap(), panicking match arm) and the type invariants, does not fit the target
  overflow    : a non-wrapping + - * whose mathematical result can leave the type's range (debug builds trap
                these, release builds wrap: the MIR overflow-assert set is exactly this set and is empty with
                overflow checks off, which is how the release/debug quantifier is covered)
  discard     : a mask that drops bits of a caller value which no other segment of the same image carries
  pkg-length  : the 4-byte arm of create_pkg_length for lengths >= 2^28
Each site is classified: *capacity-bounded* (operands are byte totals / element counts of objects that
already exist in memory and the target is >= 32 bits: needs a >= 4 GiB image; informational),
*value* (a plain scalar that is not a count, size or range; informational) or *unguarded* (a count,
size, length or range size that a caller controls): a violation.  A guard turns a site safe by
construction: the range analysis then proves the fit."""
from sym import *
import sym
from model import *
from tables import *
from emit import emission
from evalr import SeqV, StructV, EnumV, RefV, Cell, norm_segs
from cells import in_cell, segs_terms

LEVEL = 'other'
RULE = 'site enumeration + value-range classification (guards as dominating facts, private-field invariants, capacity rule); MIR cross-check of the site set'
TRUSTED = ['range arithmetic of engine/sym.py', 'rustc MIR overflow-assert placement (debug-only traps)']
ASSUMPTIONS = ['objects that exist in memory have sizes and element counts below 2^32 only by capacity (tables >= 4 GiB are out of scope)']
EXPLANATION = __doc__

LENLIKE = ('len', 'call')

def has_size_leaf(t):
    for u in subterms(t):
        if u[0] == 'len' or u[0] == 'Ssum': return True
        if u[0] == 'call' and u[1] in ('elen', 'replen', 'pkglen_len', 'size_of_val', 'size_of'): return True
    return False

MEM_SUFFIX = ('.header.length', '.table_header.length', 'handle_offset', '.rhct_nodes', '.number_of_resources')
MEM_ATOMS = set()     # atoms that were used as the length of an allocation (vec![x; n], resize, with_capacity)

def only_memory_sizes(t):
    """term built only from sizes / element counts of objects that exist in memory (plus constants)"""
    k = t[0]
    if k == 'c': return True
    if k == 'len': return True
    if k == 'call': return t[1] in ('elen', 'replen', 'pkglen_len', 'size_of_val', 'size_of')
    if k == 'a':
        nm = t[1] if isinstance(t[1], str) else ''
        # 16-bit quantities cannot carry a >= 32-bit total over the edge on their own
        return nm.endswith(MEM_SUFFIX) or t in MEM_ATOMS or rng(t)[1] <= 0xffff
    if k == 'lin': return all(only_memory_sizes(u) for u, _ in t[1])
    if k == 'Ssum': return only_memory_sizes(t[1]) and only_memory_sizes(t[3])
    if k in ('mul', 'trunc', 'ite', 'and', 'shr', 'div', 'rem'):
        return all(only_memory_sizes(x) for x in t[1:] if isinstance(x, tuple) and x and isinstance(x[0], str) and x[0] not in ('isvar', 'eq', 'lt', 'le', 'bnot', 'band', 'bor'))
    return False

def classify_site(kind, term, to_bits, src_ty=None, flows=True):
    if to_bits >= 32 and only_memory_sizes(term): return 'capacity'
    if kind == 'overflow' and not flows: return 'internal'
    if kind == 'narrowing':
        if has_size_leaf(term) or (src_ty == 'usize'): return 'unguarded'
        # a quantity *computed* from caller values (a range size max - min + 1, an offset + 1 ...) is a size/count in the
        # sense of the property even when no len() is involved; a plain argument or field narrowed byte-wise is a value
        u = strip_trunc(term)
        if u[0] == 'lin' and (len(u[1]) >= 2 or (u[2] != 0 and len(u[1]) >= 1)): return 'unguarded'
        return 'value'
    return 'unguarded'

def truncs_in(t):
    return [u for u in subterms(t) if u[0] == 'trunc']

def seg_terms_deep(segs):
    out = []
    for s in segs:
        if s[0] == 'int': out.append(s[1])
        elif s[0] == 'pkglen': out += [s[1]]
        elif s[0] == 'raw': out += [s[2]]
        elif s[0] == 'cond': out.append(s[1]); out += seg_terms_deep(s[2]); out += seg_terms_deep(s[3])
        elif s[0] == 'rep': out.append(s[1]); out += seg_terms_deep(s[3])
    return out

def run(ctx, rep):
    f = ctx.facts
    inv = field_invariants(f)
    counters = monotone_counters(f)
    rep.extra['monotone_counters'] = {k: sorted(v) for k, v in counters.items()}
    import model as _model
    def apply_invariants(I, v, inv):
        _model.apply_invariants(I, v, inv)
        if not hasattr(I, 'counter_atoms'): I.counter_atoms = set()
        counter_atoms(v, counters, I.counter_atoms)
    rep.extra['type_invariants'] = {k: {a: list(b) for a, b in v.items() if b[1] < 255 or b[0] > 0} for k, v in inv.items()}
    sites = {}     # key -> record
    visited_casts = set(); visited_arith = set()
    def note(kind, fn, what, term, bits, sp, src_ty=None, extra=None, flows=True):
        cls = classify_site(kind, term, bits, src_ty, flows)
        key = '%s:%s:%s' % (kind, fn, what)
        if sp is None and fn in f.bodies: sp = f.bodies[fn].get('sp')
        # a site is met once per evaluation context (inlined with constants here, with caller values there): the worst
        # classification over all of them is the site's
        rank = {'unguarded': 4, 'value': 3, 'internal': 2, 'index': 1, 'capacity': 0}
        if key not in sites or rank.get(cls, 0) > rank.get(sites[key]['class'], 0):
            sites[key] = {'kind': kind, 'fn': fn, 'what': what, 'class': cls, 'sp': sp, 'term': show(term), 'extra': extra}
    def harvest(I, outputs=()):
        visited_casts.update(I.visited_casts); visited_arith.update(I.visited_arith)
        # atoms are named after parameters and fields, so what counts as a memory-bounded quantity is per evaluated function
        MEM_ATOMS.clear(); MEM_ATOMS.update(getattr(I, 'alloc_atoms', ())); MEM_ATOMS.update(getattr(I, 'counter_atoms', ()))
        outset = set(); idxset = set()
        for v in outputs: collect_terms(v, outset)
        for u in list(outset):
            if u[0] == 'sel': idxset |= subterms(u[2])
            # bounds of a sub-range read (`&v[lo..hi]`) are positions too: a wrapped bound makes lo > hi or hi > len,
            # and slicing refuses both
            if u[0] == 'slice' and len(u) == 4: idxset |= subterms(u[2]) | subterms(u[3])
            if u[0] == 'call' and u[1] == 'slice' and len(u) == 5: idxset |= subterms(u[3]) | subterms(u[4])
        for pos_ in _store_positions(outputs): idxset |= subterms(pos_)
        for c in I.casts:
            if c.get('capacity'):
                rep.info.append({'capacity-bounded cast': c['fn'], 'to': c['to'], 'term': show(c['term'])[:80]}) if len(rep.info) < 150 else None
                continue
            if c['fits']: continue
            if c.get('top'):
                sites.setdefault('narrowing:%s:%s->%s:%s' % (c['fn'], c['from'], c['to'], c.get('expr', '?')), {'kind': 'narrowing', 'fn': c['fn'], 'what': '%s->%s:%s' % (c['from'], c['to'], c.get('expr', '?')),
                                 'class': 'unguarded', 'sp': c['sp'], 'term': 'operand could not be evaluated: %s' % c['top'], 'extra': {'undecided': True}})
                continue
            tb = int_bits_(c['to'])
            if tb is None: continue
            # byte-slicing casts inside create_pkg_length are decided per cell by C07 and by the pkg-length rule below
            if c['fn'] == 'aml::create_pkg_length': continue
            note('narrowing', c['fn'], '%s->%s:%s' % (c['from'], c['to'], c.get('expr', '?')), c['term'], tb, c['sp'], c['from'])
        for a in I.arith_sites:
            bits = int_bits_(a['ty'])
            if a['fn'] == 'aml::create_pkg_length': continue
            if a.get('top'):
                if bits and bits < 32:
                    sites.setdefault('overflow:%s:%s %s:%s' % (a['fn'], a['op'], a['ty'], a.get('expr', '?')), {'kind': 'overflow', 'fn': a['fn'], 'what': '%s %s:%s' % (a['op'], a['ty'], a.get('expr', '?')),
                                     'class': 'unguarded', 'sp': a['sp'], 'term': 'operand could not be evaluated: %s' % a['top'], 'extra': {'undecided': True}})
                continue
            flows = (a['term'] in outset) or (strip_trunc(a['term']) in outset) or not outputs
            if a['term'] in idxset and a['term'] not in _non_index_terms(outputs):
                flows = False     # the result is only ever used as a vector index (bounds-checked by Vec)
            note('overflow', a['fn'], '%s %s:%s' % (a['op'], a['ty'], a.get('expr', '?')), a['term'], bits, a['sp'], a['ty'], {'range': [str(a['lo'])[:24], str(a['hi'])[:24]]}, flows)

    # ---- 1. serialisers on symbolic receivers
    n_impl = 0
    for st, im in f.impls_of('Aml'):
        d = f.method('Aml', st, 'to_aml_bytes'); rep.analysed.add(d); n_impl += 1
        I = new_interp(f)
        sv = I.sym_value(norm_ty(st), 'self')
        apply_invariants(I, sv, inv)
        segs = emit_value(I, sv, st)
        if I.tops:
            rep.info.append({'partially evaluated serialiser': norm_ty(st), 'constructs': [str(x)[:80] for x in I.tops[:3]]})
            harvest(I, [segs] if segs else []); continue
        harvest(I, [segs])
        # explicit wrapping arithmetic whose result is emitted (only the checksum helpers may wrap, and they emit nothing)
        for tm in seg_terms_deep(segs):
            for u in subterms(tm):
                if u[0] == 'wrap':
                    note('wrapping', d, 'value emitted modulo %d: %s' % (u[2], show(u[1])[:80]), u[1], max(1, (u[2] - 1).bit_length()) if u[2] <= 256 else 8, f.bodies[d]['sp'], 'usize')
        # masks that discard caller bits nobody else emits
        discard_sites(note, d, segs, f.bodies[d]['sp'])
    rep.floor('serialisers scanned', n_impl, 150)

    # ---- 1b. the entry points of every in-crate sink on a symbolic receiver (their own counters and offsets)
    from evalr import SeqV as _SeqV
    for (tr, s), meths in sorted(f.trait_impls.items()):
        if tr != 'AmlSink': continue
        for meth, d in sorted(meths.items()):
            I = new_interp(f)
            sv = I.sym_value(norm_ty(s), 'self'); apply_invariants(I, sv, inv)
            arg = {'byte': A('b', 0, 255), 'word': A('x16', 0, 0xffff), 'dword': A('x32', 0, 0xffffffff), 'qword': A('x64', 0, (1 << 64) - 1)}.get(meth)
            if arg is None: arg = RefV(Cell(_SeqV('u8', [('raw', ('a', 'v'), ('len', ('a', 'v')))], name='v')))
            sym.CTX = I.st.ranges
            try: I.sink_call(meth, [RefV(Cell(sv), True), arg], {'sp': None})
            except Exception as ex: rep.undecided('sites', d, [('exception %r' % (ex,), f.bodies[d]['sp'])], f.bodies[d]['sp'])
            sym.CTX = {}
            rep.analysed.add(d)
            harvest(I, [sv] if not I.tops else [])

    # ---- 2. public constructors / mutators / builders on symbolic arguments
    n_fn = 0
    for d, b in sorted(f.bodies.items()):
        if b.get('body') is None or b.get('derived') or not b.get('name') or b.get('vis') != 'pub' or b.get('trait'): continue
        if b['kind'] != 'AssocFn' and b['kind'] != 'Fn': continue
        if b.get('trait_default_of'): continue
        st = b.get('self_ty')
        if st and not f.adt(norm_ty(st).split('<')[0]): continue
        variants = [None]
        if 'T' in (b.get('type_params') or []) or (st and '<T>' in st): variants = ['u16', 'u32', 'u64'] if st and 'AddressSpace' in st else ['u8', 'u16', 'u32', 'u64']
        for tv in variants:
            I = new_interp(f)
            args = []
            try:
                for i, (nm, t) in enumerate(params_of(b)):
                    t2 = norm_ty(t)
                    if tv: t2 = re.sub(r'\bT\b', tv, t2)
                    if i == 0 and b['params'][0].get('self_kind'):
                        base = norm_ty(st); base = re.sub(r'\bT\b', tv, base) if tv else base
                        v = I.sym_value(base, 'self')
                        args.append(RefV(Cell(v), True) if t2.startswith('&') else v)
                    else:
                        args.append(I.sym_value(t2, nm))
                for a in args: apply_invariants(I, a, inv)
                ret = run_fn(I, d, args, tsub={'T': tv} if tv else None)
            except Exception as ex:
                rep.undecided('sites', d, [('exception %r' % (ex,), b['sp'])], b['sp']); continue
            n_fn += 1; rep.analysed.add(d)
            if I.tops:
                # constructs outside the model do not by themselves say anything about counts and sizes: the sites whose operands
                # they make unevaluable are reported individually by harvest(), and sites never reached by the MIR cross-check
                rep.info.append({'partially evaluated function': d, 'constructs': [str(x)[:80] for x in I.tops[:3]]}) if len(rep.info) < 400 else None
            harvest(I, ([ret] + args) if not I.tops else [])
    rep.floor('public functions scanned', n_fn, 250)

    # ---- 3. AddressSpace serialisers per width (generic receiver)
    # ---- 4. PkgLength >= 2^28
    name = 'aml::create_pkg_length'
    if name in f.bodies:
        n = ('a', 'len'); sym.ATOM_RANGE['len'] = (0, (1 << 64) - 1)
        for incl in (1, 0):
            I = new_interp(f, abstract=())
            r = byte_view(I, run_fn(I, name, [n, C(incl)])); rep.analysed.add(name)
            if I.tops or not isinstance(r, SeqV): rep.undecided('sites', name, I.tops); continue
            visited_casts.update(I.visited_casts); visited_arith.update(I.visited_arith)
            flat, unres = in_cell(norm_segs(r.segs), n, 1 << 28, (1 << 32) - 1)
            lost = [u for t in seg_terms_deep(flat) for u in truncs_in(t)]
            # in the top cell the last byte keeps only 8 of the remaining bits: lengths >= 2^28 wrap unless refused
            # refused = some assertion of the function is false for every length of the top cell (so the function panics there)
            top_lo = (1 << 28) - (4 if incl else 0)
            refused = any(g['kind'] in ('assert', 'panic-arm') and _false_on_cell(g['cond'], n, top_lo, (1 << 64) - 1) for g in I.guards)
            if lost and not refused:
                note('pkg-length', name, 'include_self=%s: length >= 2^28 is truncated to 28 bits' % bool(incl), lost[0][1], 8, f.bodies[name]['sp'], 'usize')
            elif not lost and not refused and not unres:
                # no truncation term and no guard: the top byte must be provably exact
                pass
    else:
        rep.ob('anchor', name, False, 'create_pkg_length not found')

    # ---- 5. report
    n_unguarded = 0
    by_class = {}
    for key, s in sorted(sites.items()):
        by_class[s['class']] = by_class.get(s['class'], 0) + 1
        if s['class'] == 'unguarded':
            n_unguarded += 1
            rep.ob(s['kind'], '%s:%s' % (s['fn'], s['what']), False, '%s in %s can silently wrap: %s (operand %s)' % (s['kind'], s['fn'], s['what'], s['term'][:120]), sp=s['sp'], key=key,
                   detail={'term': s['term'], 'extra': s['extra']})
        else:
            rep.info.append({'site': key, 'class': s['class']}) if len(rep.info) < 400 else None
            rep.ob(s['kind'] + '-' + s['class'], '%s:%s' % (s['fn'], s['what']), True, detail={'class': s['class'], 'term': s['term'][:100]})
    rep.extra['sites_by_class'] = by_class
    rep.extra['sites_total'] = len(sites)

    # ---- 6. existing guards must stay (anchors named by the property)
    guards_present(f, rep, inv)

    # ---- 7. MIR cross-check: every narrowing cast / overflow trap rustc sees was visited by the range analysis
    mir_cross(ctx, rep, visited_casts, visited_arith)

def collect_terms(v, out, seen=None):
    """all subterms of every term reachable from a value / segment list"""
    if seen is None: seen = set()
    if is_term(v):
        out |= subterms(v); out |= subterms(strip_trunc(v)); return
    if id(v) in seen: return
    seen.add(id(v))
    if isinstance(v, RefV): collect_terms(v.place.get(), out, seen)
    elif isinstance(v, (StructV, EnumV)):
        for x in v.fields.values(): collect_terms(x, out, seen)
    elif isinstance(v, SeqV):
        for t in seg_terms_deep(v.segs): out |= subterms(t); out |= subterms(strip_trunc(t))
        for s in v.segs:
            if s[0] in ('elem', 'fill'): collect_terms(s[-1], out, seen)
        for (i, val) in v.stores:
            if is_term(val): out |= subterms(val)
    elif isinstance(v, list):
        if v and isinstance(v[0], tuple):
            for t in seg_terms_deep(v): out |= subterms(t); out |= subterms(strip_trunc(t))
        else:
            for x in v: collect_terms(x, out, seen)

def _store_positions(outputs):
    """index / range-bound terms of the interval writes recorded on the sequences reachable from the outputs"""
    out = []; seen = set()
    def walk(v):
        if is_term(v) or id(v) in seen: return
        seen.add(id(v))
        if isinstance(v, RefV): walk(v.place.get())
        elif isinstance(v, (StructV, EnumV)):
            for x in v.fields.values(): walk(x)
        elif isinstance(v, SeqV):
            for (i, _) in v.stores:
                if isinstance(i, tuple) and i and i[0] in ('range', 'within'): out.extend(x for x in i[1:] if is_term(x))
                elif is_term(i): out.append(i)
            for s in v.segs:
                if s[0] in ('elem', 'fill'): walk(s[-1])
        elif isinstance(v, list):
            for x in v: walk(x)
    for v in outputs: walk(v)
    return out

def _non_index_terms(outputs):
    """terms that reach an output other than through the index position of an element access"""
    out = set()
    def strip(t):
        if not is_term(t): return
        for u in subterms(t):
            pass
    acc = set()
    for v in outputs:
        tmp = set(); collect_terms(v, tmp)
        # remove everything that only occurs below a sel index
        below = set()
        for u in tmp:
            if u[0] == 'sel': below |= subterms(u[2])
        direct = set()
        def walk(t):
            if not is_term(t) or t in direct: return
            direct.add(t)
            k = t[0]
            if k == 'sel':
                walk(t[1]); return            # do not descend into the index
            if k == 'slice' and len(t) == 4:
                walk(t[1]) if is_term(t[1]) else None; return
            if k == 'call' and t[1] == 'slice' and len(t) == 5:
                walk(t[2]); return
            if k == 'eq' and (t[1] in below or t[2] in below): return     # aliasing test between two indices
            if k == 'lin':
                for u, _ in t[1]: walk(u)
                return
            for x in t[1:]:
                if isinstance(x, tuple) and x and isinstance(x[0], str): walk(x)
        roots = set()
        _roots(v, roots)
        for r in roots: walk(r)
        acc |= direct
    return acc

def _roots(v, out, seen=None):
    if seen is None: seen = set()
    if is_term(v): out.add(v); return
    if id(v) in seen: return
    seen.add(id(v))
    if isinstance(v, RefV): _roots(v.place.get(), out, seen)
    elif isinstance(v, (StructV, EnumV)):
        for x in v.fields.values(): _roots(x, out, seen)
    elif isinstance(v, SeqV):
        for t in seg_terms_deep(v.segs): out.add(t)
        for s in v.segs:
            if s[0] in ('elem', 'fill'): _roots(s[-1], out, seen)
        for (i, val) in v.stores:
            if is_term(val): out.add(val)
    elif isinstance(v, list):
        if v and isinstance(v[0], tuple):
            for t in seg_terms_deep(v): out.add(t)
        else:
            for x in v: _roots(x, out, seen)

def _false_on_cell(cond, n, lo, hi):
    """the condition evaluates to false for every value of n in [lo, hi] (interval folding of its comparisons)"""
    if n not in subterms(cond): return False
    saved = sym.CTX
    sym.CTX = {n: (lo, hi)}
    try:
        c = rebuild(rebuild(cond, lambda x: None), lambda x: None)
    finally:
        sym.CTX = saved
    return c == FALSE

def int_bits_(t):
    from evalr import int_bits
    return int_bits(norm_ty(t))

def discard_sites(note, d, segs, sp):
    terms = seg_terms_deep(segs)
    subs = set()
    for t in terms: subs |= subterms(t)
    for u in subs:
        if u[0] == 'and' and u[2][0] == 'c' and (u[2][1] & (u[2][1] + 1)) == 0 and u[1][0] == 'a':
            x = u[1]; k = u[2][1].bit_length()
            lo, hi = rng(x)
            if hi <= u[2][1]: continue
            # are the upper bits emitted elsewhere (x >> k, or x itself)?
            covered = any(v[0] == 'shr' and v[1] == x and v[2][0] == 'c' and v[2][1] <= k for v in subs) or any(t == x for t in terms)
            if not covered:
                note('discard', d, '%s & %#x drops the upper bits of %s' % (show(x), u[2][1], show(x)), x, k, sp, 'usize')

def guards_present(f, rep, inv):
    need = [('aml::Arg', 'self.0', 6), ('aml::Local', 'self.0', 7)]
    for ty, atom, mx in need:
        I = new_interp(f); sv = I.sym_value(ty, 'self'); emit_value(I, sv, ty)
        ok = refused(I.guards, cmp('le', ('a', atom), C(mx)))
        rep.ob('guard-present', ty, ok, '%s no longer refuses operands above %d' % (ty, mx))
    for ty in ('cedt::PortAssociation', 'hest::PciDevice', 'rimt::PciDevice', 'viot::PciDevice'):
        r = inv.get(ty, {})
        ok = r.get('device', (0, 255))[1] <= 31 and r.get('function', (0, 255))[1] <= 7
        adt_ = f.adt(ty)
        if not ok and adt_ and not {'device', 'function'} <= {fd['name'] for fd in adt_['variants'][0]['fields']} and only_constructed(f, ty):
            # the numbers are not kept as fields of their own (packed into one word): every value comes out of the
            # constructor, which must refuse device >= 32 and function >= 8
            cb_ = fns_of(f, ty).get('new')
            if cb_:
                I_ = new_interp(f); a_ = sym_args(I_, cb_); run_fn(I_, cb_['def'], a_)
                P_ = {n_: v_ for (n_, _), v_ in zip(params_of(cb_), a_)}
                ok = not I_.tops and 'device' in P_ and 'function' in P_ and refused(I_.guards, cmp('le', P_['device'], C(31))) and refused(I_.guards, cmp('le', P_['function'], C(7)))
        rep.ob('guard-present', ty, ok, '%s no longer bounds device < 32 and function < 8 for every way of constructing it' % ty, detail={'invariant': {k: list(v) for k, v in r.items()}})
    b = f.bodies.get('tpm2::Tpm2::set_log_area')
    if b:
        I = new_interp(f); sv = I.sym_value('tpm2::Tpm2', 'self')
        run_fn(I, b['def'], [RefV(Cell(sv), True)] + [I.sym_value(norm_ty(t), n) for n, t in params_of(b)[1:]])
        ok = refused(I.guards, cmp('eq', ('a', 'self.header.length'), C(52)))
        rep.ob('guard-present', 'tpm2::Tpm2::set_log_area', ok, 'set_log_area no longer refuses a second call (length == 52 assertion)')

def mir_cross(ctx, rep, visited_casts, visited_arith):
    f = ctx.facts
    missing_c = []; missing_a = []; n_c = n_a = 0
    for d, m in f.mir.items():
        b = f.bodies.get(d)
        if not b or b.get('derived') or d.startswith('<') and 'zerocopy' in d or '::_::' in d: continue
        for c in m['int_casts']:
            fb, tb = int_bits_(c['from']), int_bits_(c['to'])
            if fb and tb and tb < fb and not c.get('mac'):
                n_c += 1
                if c['sp'] not in visited_casts: missing_c.append((d, c['sp']))
        for a in m['asserts']:
            if a['kind'] == 'overflow' and a['op'] in ('Add', 'Sub', 'Mul'):
                n_a += 1
                if a['sp'] not in visited_arith: missing_a.append((d, a['sp'], a['op']))
    rep.extra['mir_narrowing_casts'] = n_c; rep.extra['mir_overflow_asserts'] = n_a
    rep.extra['overflow_checks'] = f.cfg.get('overflow_checks')
    rep.ob('mir-coverage', 'narrowing casts', not missing_c, 'narrowing casts that the range analysis never evaluated: %s' % missing_c[:6], detail={'mir_sites': n_c, 'missing': missing_c[:10]})
    rep.ob('mir-coverage', 'overflow traps', not missing_a, 'overflow-checked operations that the range analysis never evaluated: %s' % missing_a[:6], detail={'mir_sites': n_a, 'missing': missing_a[:10]})
    if ctx.tier == 'thorough':
        clippy_cross(ctx, rep, visited_casts, visited_arith)
    if ctx.facts_rel is not None:
        n_rel = sum(1 for m in ctx.facts_rel.mir.values() for a in m['asserts'] if a['kind'] == 'overflow')
        rep.extra['release_like_overflow_asserts'] = n_rel
        rep.ob('mir-coverage', 'release build has no overflow traps', n_rel == 0 and not ctx.facts_rel.cfg.get('overflow_checks'),
               'a build with overflow checks off still contains %d overflow assertions' % n_rel, detail={'release_like_asserts': n_rel})


def clippy_cross(ctx, rep, visited_casts, visited_arith):
    """thorough: an independent enumeration of the same site kinds by clippy (type-resolved lints the project never
    enabled) must be a subset of what the range analysis evaluated"""
    import subprocess, json, os
    here = os.path.dirname(os.path.dirname(os.path.abspath(__file__)))
    env = dict(os.environ, CARGO_TARGET_DIR=os.path.join(here, '.cache', 'target-clippy'), CARGO_NET_OFFLINE='true')
    p = subprocess.run(['cargo', '+nightly', 'clippy', '--offline', '--lib', '--message-format=json', '--', '-W', 'clippy::cast_possible_truncation', '-W', 'clippy::arithmetic_side_effects'],
                       cwd=ctx.repo, env=env, stdout=subprocess.PIPE, stderr=subprocess.DEVNULL, text=True)
    casts = []; arith = []
    for l in p.stdout.splitlines():
        try: m = json.loads(l)
        except Exception: continue
        if m.get('reason') != 'compiler-message': continue
        code = (m['message'].get('code') or {}).get('code') or ''
        for s in m['message']['spans']:
            if not s.get('is_primary'): continue
            site = '%s:%d:%d' % (s['file_name'], s['line_start'], s['column_start'])
            if code == 'clippy::cast_possible_truncation': casts.append(site)
            elif code == 'clippy::arithmetic_side_effects': arith.append(site)
    rep.extra['clippy_cast_sites'] = len(casts); rep.extra['clippy_arith_sites'] = len(arith)
    rep.ob('clippy-cross', 'clippy ran', bool(casts) and bool(arith), 'clippy produced no sites (exit %s)' % p.returncode)
    def near(site, visited):
        f, l, c = site.rsplit(':', 2)
        return any(v and v.startswith(f + ':' + l + ':') for v in visited)
    mc = [s for s in casts if not near(s, visited_casts)]
    ma = [s for s in arith if not near(s, visited_arith)]
    rep.ob('clippy-cross', 'cast_possible_truncation sites evaluated', not mc, 'clippy cast sites the range analysis never evaluated: %s' % mc[:8], detail={'clippy_sites': len(casts), 'missing': mc[:20]})
    rep.ob('clippy-cross', 'arithmetic_side_effects sites evaluated', not ma, 'clippy arithmetic sites the range analysis never evaluated: %s' % ma[:8], detail={'clippy_sites': len(arith), 'missing': ma[:20]})
