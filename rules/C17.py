"""C17 - the checksum accumulator is a faithful mod-256 sum with exact inverses.

Every public operation of `Checksum` (and the two free helpers) is evaluated once on a
symbolic accumulator state v and symbolic operands; the resulting abstract value is an affine
map over Z/256 and is compared, as a term identity, with the specification's map.  An identity
between canonical Z256 terms holds for all 256 x 256 (state, operand) pairs and for every byte
string at once."""
from sym import *
import sym
from model import *
from evalr import SeqV

LEVEL = 'proof'
RULE = 'abstract interpretation of each Checksum operation into an affine map over Z/256; identity with the specified map'
TRUSTED = ['Z256 term algebra in engine/sym.py (wrap)', 'loop summarisation of byte folds (engine/evalr.py summarise)']
ASSUMPTIONS = ['u8::wrapping_add / wrapping_sub are modelled as + / - modulo 256 (std contract)']
EXPLANATION = __doc__

def checksum_state(I, v):
    return StructV('Checksum', {'value': v}, 'Checksum')

def run(ctx, rep):
    _run(ctx, rep)
    if ctx.tier == 'thorough':
        import witness
        witness.check(rep, ctx, ['C17ValuePrivate'])

def _run(ctx, rep):
    f = ctx.facts
    fns = fns_of(f, 'Checksum')
    for need in ('append', 'delete', 'add', 'sub', 'raw_value', 'value'):
        rep.ob('anchor', 'Checksum::' + need, need in fns, 'method Checksum::%s not found' % need)
    if not all(n in fns for n in ('append', 'delete', 'add', 'sub', 'raw_value', 'value')): return
    rep.floor('Checksum operations', len(fns), 6)
    v = A('v', 0, 255); d = A('d', 0, 255)
    data = lambda I: RefV(Cell(SeqV('u8', [('raw', ('a', 'data'), ('len', ('a', 'data')))], name='data')))
    Sdata = ('S', ('raw', ('a', 'data')))

    def post(name, mkargs, expect, what):
        I = new_interp(f, abstract=())
        st = checksum_state(I, v)
        r = run_fn(I, fns[name]['def'], [RefV(Cell(st), True)] + mkargs(I))
        rep.analysed.add(fns[name]['def'])
        if I.tops:
            rep.undecided('Z256-map', 'Checksum::' + name, I.tops, fns[name]['sp']); return None
        got = st.fields['value'] if what == 'state' else r
        ok, w = equal(got, expect)
        rep.ob('Z256-map', 'Checksum::' + name, ok, '%s after %s is %s, specified %s' % (what, name, show(got), show(expect)),
               sp=fns[name]['sp'], detail={'op': name, 'result': show(got), 'specified': show(expect)})
        return got

    post('add', lambda I: [d], wrap(add(v, d), 256), 'state')
    post('sub', lambda I: [d], wrap(sub(v, d), 256), 'state')
    post('append', lambda I: [data(I)], wrap(add(v, Sdata), 256), 'state')
    post('delete', lambda I: [data(I)], wrap(sub(v, Sdata), 256), 'state')
    post('raw_value', lambda I: [], v, 'result')
    post('value', lambda I: [], wrap(neg(v), 256), 'result')

    # raw + value == 0 (mod 256)
    I = new_interp(f, abstract=())
    st = checksum_state(I, v)
    val = run_fn(I, fns['value']['def'], [RefV(Cell(st))])
    ok, _ = equal(wrap(add(v, val), 256), ZERO) if is_term(val) else (False, None)
    rep.ob('complement', 'Checksum::value', ok, 'raw value + value() is %s, not 0 mod 256' % (show(wrap(add(v, val), 256)) if is_term(val) else val), sp=fns['value']['sp'],
           detail={'raw+value': show(wrap(add(v, val), 256)) if is_term(val) else repr(val)})

    # exact inverses: add;sub and append;delete restore the state
    for a, b, mk in (('add', 'sub', lambda I: [d]), ('append', 'delete', data), ('sub', 'add', lambda I: [d]), ('delete', 'append', data)):
        I = new_interp(f, abstract=())
        st = checksum_state(I, v)
        arg = mk(I) if a in ('add', 'sub') else [mk(I)]
        run_fn(I, fns[a]['def'], [RefV(Cell(st), True)] + arg)
        run_fn(I, fns[b]['def'], [RefV(Cell(st), True)] + arg)
        got = st.fields['value']
        ok = is_term(got) and equal(got, v)[0] and not I.tops
        rep.ob('inverse', 'Checksum::%s;%s' % (a, b), ok, 'state after %s then %s of the same operand is %s, not the original state' % (a, b, show(got) if is_term(got) else got),
               sp=fns[b]['sp'], detail={'sequence': [a, b], 'final_state': show(got) if is_term(got) else repr(got)})

    # the sink interface: each of the five entry points adds exactly the bytes it is given
    x = {'byte': (A('x8', 0, 255), 1), 'word': (A('x16', 0, 0xffff), 2), 'dword': (A('x32', 0, 0xffffffff), 4), 'qword': (A('x64', 0, (1 << 64) - 1), 8)}
    for meth in ('byte', 'word', 'dword', 'qword', 'vec'):
        I = new_interp(f, abstract=())
        st = checksum_state(I, v)
        if meth == 'vec':
            arg = data(I); exp = wrap(add(v, Sdata), 256)
        else:
            arg, w = x[meth]; exp = wrap(add(v, S_of([('int', arg, w)])), 256)
        I.sink_call(meth, [RefV(Cell(st), True), arg], {'sp': None})
        got = st.fields['value']
        from evalr import canon_bytes
        ok = is_term(got) and not I.tops and equal(canon_bytes(got), canon_bytes(exp))[0]
        for c in I.calls_seen: rep.analysed.add(c)
        rep.ob('sink', 'Checksum as AmlSink::' + meth, ok, 'state after sink.%s is %s, specified %s' % (meth, show(got) if is_term(got) else got, show(exp)),
               detail={'entry_point': meth, 'result': show(got) if is_term(got) else repr(got), 'specified': show(exp), 'via': I.calls_seen[-3:]})

    # free helpers
    # the crate-private helper that computes a checksum byte of a whole slice (today `generate_checksum`).  Its name and
    # home module are not part of the property: when no function of that name exists, the private free functions of
    # shape fn(&[u8]) -> u8 are evaluated and those that compute the negated byte sum are recorded; the tables that
    # use such a helper are decided through it by C01 (the helper is inlined there), so nothing is lost if there is none.
    gc = [d for d in (['generate_checksum'] if 'generate_checksum' in f.bodies else
                      sorted(d for d, b in f.bodies.items() if not b.get('self_ty') and not b.get('trait') and b.get('kind') == 'Fn' and b.get('body') is not None
                             and [norm_ty(t) for _, t in params_of(b)] in (['&[u8]'], ["&'_ [u8]"]) and norm_ty(b.get('ret') or b.get('ret_ty') or 'u8') == 'u8'))]
    for d in gc:
        I = new_interp(f, abstract=())
        r = run_fn(I, d, [data(I)])
        exp = wrap(neg(Sdata), 256)
        ok = is_term(r) and not I.tops and equal(r, exp)[0]
        if d != 'generate_checksum' and not ok: continue        # some other helper over bytes (a plain sum, ...)
        rep.analysed.add(d)
        rep.ob('Z256-map', d, ok, '%s(data) is %s, specified %s' % (d, show(r) if is_term(r) else r, show(exp)),
               sp=f.bodies[d]['sp'], detail={'result': show(r) if is_term(r) else repr(r), 'specified': show(exp)})
    if 'u8sum' in f.bodies:
        I = new_interp(f, abstract=())
        obj = DynV(('a', 'obj'))
        r = run_fn(I, 'u8sum', [RefV(Cell(obj))])
        rep.analysed.add('u8sum')
        exp = wrap(('S', ('emit', ('a', 'obj'))), 256)
        ok = is_term(r) and not I.tops and equal(r, exp)[0]
        rep.ob('Z256-map', 'u8sum', ok, 'u8sum(obj) is %s, specified the byte sum of the serialised object' % (show(r) if is_term(r) else r,),
               sp=f.bodies['u8sum']['sp'], detail={'result': show(r) if is_term(r) else repr(r), 'specified': show(exp)})
    else:
        rep.ob('anchor', 'u8sum', False, 'function u8sum not found')

    # who may write the accumulator: the field is private and assigned only inside impl Checksum
    adt = f.adt('Checksum')
    fld = [fd for fd in adt['variants'][0]['fields'] if fd['name'] == 'value'] if adt else []
    rep.ob('encapsulation', 'Checksum.value private', bool(fld) and fld[0]['vis'] != 'pub', 'the accumulator field is public')
    writers = set()
    for dname, b in f.bodies.items():
        if b.get('body') is None: continue
        if _writes_field(b['body'], 'Checksum', 'value'): writers.add(dname)
    allowed = {b['def'] for b in fns.values()} | {d for d, b in f.bodies.items() if b.get('derived')}   # derive(Default) zero-initialises
    extra = writers - allowed
    rep.ob('encapsulation', 'writers of Checksum.value', not extra, 'functions outside impl Checksum assign the accumulator: %s' % sorted(extra),
           detail={'writers': sorted(writers)})

def _writes_field(e, ty, field):
    found = [False]
    def walk(x):
        if isinstance(x, dict):
            if x.get('k') in ('Assign', 'AssignOp'):
                l = x['lhs']
                if l.get('k') == 'Field' and l.get('name') == field and norm_ty(strip_refs(l['lhs'].get('ty', ''))) == ty: found[0] = True
            if x.get('k') == 'Adt' and x.get('adt') == ty:
                for fd in x['fields']:
                    if fd['name'] == field and not (fd['e'].get('k') == 'Lit'): found[0] = True
            for v in x.values(): walk(v)
        elif isinstance(x, list):
            for v in x: walk(v)
    walk(e)
    return found[0]
