"""C11 - option builders set exactly their own specification bit, independently.

Effect summaries.  Every public by-value / &mut-self method of every option-bearing structure is
evaluated once on a fully symbolic receiver; the set of fields it changes and the new value of each
(as a term over the old value and the arguments) is compared with the bit table (spec/options.py):
`flags' == flags | mask` with the specification's mask, `field' == argument`, nothing else written
(checksum refresh of the TCPA server builders excepted, which C01 owns).  Or-assignment of constants
commutes and is idempotent, so any subset, order and repetition yields the union of the masks;
independence is the write-set clause.  Option enums are compared variant by variant with the
specification values; constructor-time options and serialisation-time flag helpers likewise.
Contradiction rule (no table needed): two options of one structure or-ing the same constant into
the same field cannot both be right."""
from sym import *
import sym, sys, os
from model import *
from evalr import SeqV, StructV, EnumV, RefV, Cell, fcopy
sys.path.insert(0, os.path.join(os.path.dirname(os.path.dirname(os.path.abspath(__file__))), 'spec'))
import options as SPEC

LEVEL = 'other'
RULE = 'effect summary (write set + update term) of each builder vs bit table; enum discriminants vs specification values'
TRUSTED = ['spec/options.py (my reading of the ACPI / TCG / CXL / RISC-V tables)']
ASSUMPTIONS = ['pub fields (ProcessorNode.flags, FADTBuilder.*) are not written directly by callers']
EXPLANATION = __doc__

def flat(v, prefix=''):
    out = {}
    if isinstance(v, StructV):
        for k, x in v.fields.items(): out.update(flat(x, prefix + k + '.'))
    else:
        out[prefix[:-1]] = v
    return out

def effects(pre, post):
    a = flat(pre); b = flat(post)
    return {k: b[k] for k in b if repr(a.get(k)) != repr(b[k])}

def run(ctx, rep):
    f = ctx.facts
    n_builders = builders(f, rep)
    rep.floor('option builders and setters', n_builders, 100)
    rest(f, rep)

def builders(f, rep):
    """every public setter / option builder on a symbolic receiver: which fields it writes and with what value
    (shared with C04: the value a field has in the image is what the constructor and the setters gave it)"""
    n_builders = 0
    types = dict(SPEC.OPTIONS)
    for d, b in f.bodies.items():
        st = b.get('self_ty')
        if st and not b.get('trait') and is_pub(b) and b.get('name') and classify(b, st) == 'builder' and f.adt(norm_ty(st).split('<')[0]):
            types.setdefault(norm_ty(st), {})
    rep.extra['types_with_builders'] = sorted(types)
    for ty, table in sorted(types.items()):
        only_builders = ty not in SPEC.OPTIONS
        fs = fns_of(f, ty)
        if not fs: rep.ob('anchor', ty, False, 'option-bearing type %s not found' % ty); continue
        or_consts = {}   # (field, mask) -> method   for the contradiction rule
        for name, b in sorted(fs.items()):
            if not is_pub(b): continue
            kind = classify(b, ty)
            if kind not in ('mut', 'builder'): continue
            if only_builders and kind != 'builder': continue
            I = new_interp(f)
            sv = I.sym_value(ty, 'self'); pre = fcopy(sv)
            ps = params_of(b)
            args = [I.sym_value(norm_ty(t), n) for n, t in ps[1:]]
            P = {n: a for (n, _), a in zip(ps[1:], args)}
            if kind == 'mut':
                run_fn(I, b['def'], [RefV(Cell(sv), True)] + args); post = sv
            else:
                post = run_fn(I, b['def'], [sv] + args)
            rep.analysed.add(b['def'])
            subj = b['def']
            if I.tops or not isinstance(post, StructV): rep.undecided('effect', subj, I.tops, b['sp']); continue
            eff = effects(pre, post)
            eff.pop('header.checksum', None)            # checksum maintenance is C01's
            old = flat(pre)
            for fld, new in eff.items():
                if is_term(new) and is_term(old.get(fld)) and new[0] == 'or':
                    # record constants or-ed in, for the contradiction rule
                    consts = [p for p in _or_parts(new) if p[0] == 'c']
                    if old[fld] in _or_parts(new) and consts: or_consts.setdefault((fld, consts[0][1]), []).append(name)
            if name not in table:
                # plain setter: writes exactly the field of its own name with its single argument
                if len(ps) == 2 and name in pre.fields and not eff and not _same(pre.fields[name], args[0]):
                    # a setter named after a field of its type that leaves the object untouched drops the caller's value
                    rep.ob('setter', subj, False, 'method %s is named after field %s but has no effect: the value given is dropped' % (name, name), sp=b['sp'], detail={'writes': []})
                elif len(ps) == 2 and _top(eff) <= {name} and (not eff or _same(post.fields[name], args[0])):
                    rep.ob('setter', subj, True, detail={'field': name}); n_builders += 1
                elif not eff:
                    rep.ob('setter', subj, True, detail={'effect': 'none'})
                elif len(ps) == 2 and name in pre.fields:
                    rep.ob('setter', subj, False, 'method %s is named after field %s but writes %s' % (name, name, sorted(eff)), sp=b['sp'], detail={'writes': sorted(eff)})
                else:
                    rep.spec_entries['unspecified'] += 1; rep.info.append({'unspecified_builder': subj, 'writes': sorted(eff)})
                continue
            n_builders += 1; rep.spec_entries['spec'] += 1
            want = table[name]
            if any(fld not in pre.fields for fld in want):
                # the private state no longer has the specified field (a flag word kept as separate bools and combined when
                # serialising, ...): the field is what the structure emits at the field's place, and "writes nothing else"
                # is "no other emitted byte changes"
                _emission_mode(f, rep, I, ty, name, b, subj, want, pre, post, P)
                continue
            extra = sorted(set(_top(eff)) - set(want)); missing = sorted(set(want) - set(_top(eff)))
            rep.ob('write-set', subj, not extra and not missing, '%s writes %s; the option governs %s' % (name, sorted(_top(eff)), sorted(want)), sp=b['sp'],
                   detail={'writes': sorted(eff), 'specified': sorted(want)})
            for fld, eff_spec in want.items():
                got = post.fields.get(fld); o = pre.fields.get(fld)
                kind_ = eff_spec[0]
                if kind_ == 'or': exp = bor(o, C(eff_spec[1]))
                elif kind_ == 'orterm': exp = bor(o, eff_spec[1](P))
                elif kind_ == 'set': exp = eff_spec[1](P)
                elif kind_ == 'or_if': exp = ite(eff_spec[1](P), bor(o, C(eff_spec[2])), o)
                elif kind_ == 'setval':
                    ok = repr(got) == repr(P[eff_spec[1]])
                    rep.ob('update', '%s.%s' % (subj, fld), ok, '%s must store its argument in %s' % (name, fld), sp=b['sp']); continue
                ok = is_term(got) and equal(strip_trunc(got), strip_trunc(exp))[0]
                rep.ob('update', '%s.%s' % (subj, fld), ok, 'after %s, %s is %s; specified %s' % (name, fld, show(got) if is_term(got) else got, show(exp)), sp=b['sp'],
                       detail={'field': fld, 'after': show(got) if is_term(got) else repr(got), 'specified': show(exp)})
        for (fld, mask), methods in or_consts.items():
            rep.ob('contradiction', '%s.%s|%#x' % (ty, fld, mask), len(set(methods)) == 1, 'options %s of %s all or %#x into %s: they are indistinguishable in the output' % (sorted(set(methods)), ty, mask, fld))
    return n_builders

def _field_places(f, ty):
    """{field: (offset term, width)} of the setter-filled fields of `ty` in its specified layout (spec/layouts.py)"""
    import layouts as L
    from layout_cmp import build, tagged_positions
    out = {}
    for (t_, c_), sp in L.STRUCTS.items():
        if t_ != ty: continue
        exp, tags = build(sp['items'], {})
        for p_, s_, tg in tagged_positions(exp, tags):
            if isinstance(tg, tuple) and tg[0] == 'setter' and s_[0] == 'int': out[tg[1]] = (p_, s_[2])
    return out

def _emission_mode(f, rep, I, ty, name, b, subj, want, pre, post, P):
    from rules.C03 import seg_at_term
    places = _field_places(f, ty)
    if f.method('Aml', ty, 'to_aml_bytes') is None or any(fld not in places for fld in want):
        rep.undecided('effect', subj, [('the specified field is not part of the state and has no place in a specified layout', b['sp'])], b['sp']); return
    n0 = len(I.tops)
    E0 = emit_value(I, pre, ty); E1 = emit_value(I, post, ty)
    if E0 is None or E1 is None or len(I.tops) != n0: rep.undecided('effect', subj, I.tops[n0:] or [('not serialisable', b['sp'])], b['sp']); return
    facts = [c for c, _ in I.st.facts]
    def masked(E):
        lst, _ = with_offsets(list(E)); out = []
        for p_, s_ in lst:
            hit = [fld for fld in want if places[fld][0] == p_]
            if hit and s_[0] == 'int' and s_[2] >= places[hit[0]][1]: out.append(('int', ZERO, s_[2]))
            else: out.append(s_)
        return out
    ok_ws, why = segs_equal(masked(E0), masked(E1), facts)
    rep.ob('write-set', subj, ok_ws, '%s changes emitted bytes outside the field(s) %s it governs: %s' % (name, sorted(want), why), sp=b['sp'], detail={'mode': 'emission', 'specified': sorted(want)})
    for fld, eff_spec in want.items():
        pos, w = places[fld]
        g0 = seg_at_term(E0, pos, w); g1 = seg_at_term(E1, pos, w)
        if g0 is None or g1 is None or g0[0] != 'int' or g1[0] != 'int':
            rep.ob('update', '%s.%s' % (subj, fld), False, 'no %d-byte field at offset %s of the emission' % (w, show(pos)), sp=b['sp']); continue
        o = strip_trunc(g0[1]); got = strip_trunc(g1[1]); kind_ = eff_spec[0]
        if kind_ == 'or': exp = bor(o, C(eff_spec[1]))
        elif kind_ == 'orterm': exp = bor(o, eff_spec[1](P))
        elif kind_ == 'set': exp = eff_spec[1](P)
        elif kind_ == 'or_if': exp = ite(eff_spec[1](P), bor(o, C(eff_spec[2])), o)
        else:
            rep.undecided('effect', subj, [('option kind %s in emission mode' % kind_, b['sp'])], b['sp']); continue
        ok = equal(got, strip_trunc(exp), facts)[0]
        rep.ob('update', '%s.%s' % (subj, fld), ok, 'after %s, the %s field emitted is %s; specified %s' % (name, fld, show(got), show(exp)), sp=b['sp'],
               detail={'field': fld, 'mode': 'emission', 'after': show(got), 'specified': show(exp)})

def rest(f, rep):
    # ---- constructor-time options
    for (ty, ctor), fields in sorted(SPEC.CTOR_OPTIONS.items()):
        cb = fns_of(f, ty).get(ctor)
        subj = '%s::%s' % (ty, ctor)
        if not cb: rep.ob('anchor', subj, False, 'constructor not found'); continue
        I = new_interp(f)
        args = sym_args(I, cb); P = {n: a for (n, _), a in zip(params_of(cb), args)}
        st = run_fn(I, cb['def'], args); rep.analysed.add(cb['def'])
        if I.tops or not isinstance(st, StructV): rep.undecided('ctor-option', subj, I.tops, cb['sp']); continue
        for fld, fn in fields.items():
            got = st.fields.get(fld); exp = fn(P)
            if got is None and f.method('Aml', ty, 'to_aml_bytes') is not None and fld in _field_places(f, ty):
                # the field is not part of the private state: it is what the fresh structure emits at the field's place
                from rules.C03 import seg_at_term
                E_ = emit_value(I, st, ty); pos_, w_ = _field_places(f, ty)[fld]
                g_ = seg_at_term(E_, pos_, w_) if E_ is not None and not I.tops else None
                got = strip_trunc(g_[1]) if g_ is not None and g_[0] == 'int' else None
            ok = is_term(got) and equal(strip_trunc(got), exp)[0]
            rep.ob('ctor-option', subj + '.' + fld, ok, '%s sets %s to %s; specified %s' % (ctor, fld, show(got) if is_term(got) else got, show(exp)), sp=cb['sp'],
                   detail={'value': show(got) if is_term(got) else repr(got), 'specified': show(exp)})

    # ---- flag words computed at serialisation time
    for (ty, helper), fn in sorted(SPEC.COMPUTED.items()):
        hb = fns_of(f, ty).get(helper)
        subj = '%s::%s' % (ty, helper)
        if not hb: rep.ob('anchor', subj, False, 'helper not found'); continue
        I = new_interp(f)
        sv = I.sym_value(ty, 'self')
        r = run_fn(I, hb['def'], [RefV(Cell(sv))]); rep.analysed.add(hb['def'])
        exp = fn()
        ok = not I.tops and is_term(r) and equal(r, exp)[0]
        rep.ob('computed-flags', subj, ok, '%s computes %s; specified %s' % (helper, show(r) if is_term(r) else r, show(exp)), sp=hb['sp'], detail={'value': show(r) if is_term(r) else repr(r), 'specified': show(exp)})

    # ---- enum values
    for path, variants in sorted(SPEC.ENUMS.items()):
        adt = f.adt(path)
        if not adt: rep.ob('anchor', path, False, 'enum %s not found' % path); continue
        got = {v['name']: v['discr'] for v in adt['variants']}
        for vn, val in variants.items():
            rep.ob('enum-value', '%s::%s' % (path, vn), got.get(vn) == val, '%s::%s is %s, specified %s' % (path, vn, got.get(vn), val), sp=adt['sp'], detail={'value': got.get(vn), 'specified': val})
        for vn in set(got) - set(variants):
            rep.spec_entries['unspecified'] += 1; rep.info.append({'unspecified_variant': '%s::%s' % (path, vn)})

def _or_parts(t):
    out = []
    def go(x):
        if x[0] == 'or': go(x[1]); go(x[2])
        else: out.append(x)
    go(t); return out

def _top(eff): return {k.split('.')[0] for k in eff}

def _same(v, arg):
    if is_term(v) and is_term(arg): return equal(strip_trunc(v), arg)[0]
    return repr(v) == repr(arg)
