// afx — fact extractor for the acpi_tables static checks.
//
// A rustc driver (rustc_private) injected with RUSTC_WORKSPACE_WRAPPER.  For the
// crates named in AFX_CRATES (default "acpi_tables") it writes one JSON fact file
// (one write per process) into AFX_OUT holding: ADTs with layouts, evaluated
// constants, trait impls, the typed THIR tree of every function/closure body with
// resolved callees, MIR overflow-assert / int-cast sites, and source provenance.
// Every other crate is compiled unchanged.
#![feature(rustc_private)]
#![allow(clippy::all)]

extern crate rustc_abi;
extern crate rustc_ast;
extern crate rustc_driver;
extern crate rustc_hir;
extern crate rustc_interface;
extern crate rustc_middle;
extern crate rustc_session;
extern crate rustc_span;

mod json;
use json::J;

use rustc_driver::{Callbacks, Compilation};
use rustc_hir::def::DefKind;
use rustc_hir::def_id::{DefId, LocalDefId, LOCAL_CRATE};
use rustc_interface::interface::Compiler;
use rustc_middle::mir;
use rustc_middle::thir::{self, ExprId, ExprKind, Pat, PatKind, StmtKind, Thir};
use rustc_middle::ty::{self, print::with_no_trimmed_paths, Ty, TyCtxt};
use rustc_span::Span;

struct Afx {
    crates: Vec<String>,
    out_dir: String,
}

fn main() {
    let mut args: Vec<String> = std::env::args().collect();
    // RUSTC_WORKSPACE_WRAPPER passes the real rustc path as argv[1].
    if args.len() > 1 && (args[1].ends_with("rustc") || args[1].contains("/rustc")) {
        args.remove(1);
    }
    let crates = std::env::var("AFX_CRATES").unwrap_or_else(|_| "acpi_tables".to_string());
    let out_dir = std::env::var("AFX_OUT").unwrap_or_else(|_| ".".to_string());
    let mut cb = Afx { crates: crates.split(',').map(|s| s.to_string()).collect(), out_dir };
    rustc_driver::run_compiler(&args, &mut cb);
}

impl Callbacks for Afx {
    fn after_expansion<'tcx>(&mut self, _c: &Compiler, tcx: TyCtxt<'tcx>) -> Compilation {
        let name = tcx.crate_name(LOCAL_CRATE).to_string();
        if !self.crates.iter().any(|c| *c == name) {
            return Compilation::Continue;
        }
        let facts = with_no_trimmed_paths!(extract(tcx, &name));
        let path = format!("{}/{}.facts.json", self.out_dir, name);
        let mut s = String::with_capacity(1 << 22);
        facts.write(&mut s);
        std::fs::write(&path, s).expect("afx: cannot write fact file");
        Compilation::Continue
    }
}

// ---------------------------------------------------------------------------

struct Cx<'tcx> {
    tcx: TyCtxt<'tcx>,
    cur_owner: std::cell::Cell<Option<DefId>>,
}

fn o(v: Vec<(&str, J)>) -> J {
    J::Obj(v.into_iter().map(|(k, v)| (k.to_string(), v)).collect())
}
fn s<T: ToString>(x: T) -> J {
    J::Str(x.to_string())
}
fn n<T: Into<i128>>(x: T) -> J {
    J::Num(x.into())
}

impl<'tcx> Cx<'tcx> {
    fn sp(&self, span: Span) -> J {
        let sm = self.tcx.sess.source_map();
        let lo = sm.lookup_char_pos(span.lo());
        let f = match &lo.file.name {
            rustc_span::FileName::Real(r) => match r.local_path() {
                Some(p) => p.to_string_lossy().to_string(),
                None => format!("{:?}", lo.file.name),
            },
            other => format!("{:?}", other),
        };
        s(format!("{}:{}:{}", f, lo.line, lo.col.0 + 1))
    }

    fn macro_of(&self, span: Span) -> J {
        if !span.from_expansion() {
            return J::Null;
        }
        let mut names = Vec::new();
        for e in span.macro_backtrace() {
            names.push(s(format!("{}", e.kind.descr())));
        }
        J::Arr(names)
    }

    fn ty(&self, t: Ty<'tcx>) -> J {
        s(format!("{}", t))
    }

    /// like `ty`, with unevaluated constants (array lengths naming a const item) evaluated; types
    /// that mention regions are printed as written
    fn nty(&self, owner: DefId, t: Ty<'tcx>) -> J {
        use rustc_middle::ty::TypeVisitableExt;
        if !t.has_free_regions() && !t.has_bound_regions() && !t.has_non_region_param() {
            let env = ty::TypingEnv::post_analysis(self.tcx, owner);
            if let Ok(n) = self.tcx.try_normalize_erasing_regions(env, ty::Unnormalized::new_wip(t)) {
                return self.ty(n);
            }
        }
        self.ty(t)
    }

    fn path(&self, d: DefId) -> String {
        self.tcx.def_path_str(d)
    }

    fn layout_size(&self, owner: DefId, t: Ty<'tcx>) -> Option<u64> {
        let env = ty::TypingEnv::post_analysis(self.tcx, owner);
        let t = self.tcx.try_normalize_erasing_regions(env, ty::Unnormalized::new_wip(t)).ok()?;
        match self.tcx.layout_of(env.as_query_input(t)) {
            Ok(l) => Some(l.size.bytes()),
            Err(_) => None,
        }
    }

    // ----- constants --------------------------------------------------------

    fn const_value(&self, def_id: DefId) -> J {
        let tcx = self.tcx;
        let ty = tcx.type_of(def_id).instantiate_identity().skip_norm_wip();
        let mut j = match tcx.const_eval_poly(def_id) {
            Ok(cv) => self.const_val_to_j(cv, ty, def_id),
            Err(_) => J::Null,
        };
        // aggregates (arrays of tuples, tuples, nested arrays): also the structured value, independent of layout
        if matches!(ty.kind(), ty::Array(..) | ty::Tuple(..)) && !tcx.generics_of(def_id).requires_monomorphization(tcx) {
            let cid = mir::interpret::GlobalId { instance: ty::Instance::mono(tcx, def_id), promoted: None };
            let env = ty::TypingEnv::fully_monomorphized();
            if let Ok(vt) = tcx.eval_to_valtree(env.as_query_input(cid)) {
                let tree = self.valtree_to_j(vt, ty, 0);
                if let J::Obj(ref mut v) = j {
                    v.push(("tree".to_string(), tree));
                } else {
                    j = o(vec![("tree", tree)]);
                }
            }
        }
        j
    }

    fn valtree_to_j(&self, vt: ty::ValTree<'tcx>, t: Ty<'tcx>, depth: usize) -> J {
        if depth > 6 {
            return J::Null;
        }
        if let Some(si) = vt.try_to_leaf() {
            if t.is_bool() {
                return J::Bool(si.to_bits(si.size()) != 0);
            }
            if t.is_signed() {
                return J::Num(si.to_int(si.size()));
            }
            return J::Num(si.to_bits(si.size()) as i128);
        }
        if let Some(br) = vt.try_to_branch() {
            let mut out = Vec::new();
            for c in br.iter() {
                let v = c.to_value();
                out.push(self.valtree_to_j(v.valtree, v.ty, depth + 1));
            }
            return J::Arr(out);
        }
        J::Null
    }

    fn const_val_to_j(&self, cv: mir::ConstValue, ty: Ty<'tcx>, owner: DefId) -> J {
        let tcx = self.tcx;
        match cv {
            mir::ConstValue::Scalar(mir::interpret::Scalar::Int(si)) => {
                let bits = si.to_bits(si.size());
                if ty.is_bool() {
                    o(vec![("bool", J::Bool(bits != 0))])
                } else if ty.is_signed() {
                    o(vec![("int", J::Num(si.to_int(si.size())))])
                } else {
                    o(vec![("int", J::Num(bits as i128))])
                }
            }
            mir::ConstValue::ZeroSized => o(vec![("zst", J::Bool(true))]),
            mir::ConstValue::Indirect { alloc_id, offset } => {
                let size = match self.layout_size(owner, ty) {
                    Some(sz) => sz,
                    None => return J::Null,
                };
                match tcx.global_alloc(alloc_id) {
                    mir::interpret::GlobalAlloc::Memory(a) => {
                        let a = a.inner();
                        let start = offset.bytes() as usize;
                        let end = start + size as usize;
                        if end > a.len() {
                            return J::Null;
                        }
                        let bytes = a.inspect_with_uninit_and_ptr_outside_interpreter(start..end);
                        o(vec![("bytes", J::Arr(bytes.iter().map(|b| n(*b as i64)).collect()))])
                    }
                    _ => J::Null,
                }
            }
            _ => J::Null,
        }
    }

    // ----- patterns -----------------------------------------------------------

    fn var(&self, id: thir::LocalVarId) -> J {
        let h = id.0;
        s(format!("{}.{}", h.owner.def_id.local_def_index.as_u32(), h.local_id.as_u32()))
    }

    fn field_name(&self, t: Ty<'tcx>, variant: rustc_abi::VariantIdx, f: rustc_abi::FieldIdx) -> J {
        match t.kind() {
            ty::Adt(def, _) => {
                let v = def.variant(variant);
                s(v.fields[f].name.to_string())
            }
            _ => s(f.as_u32().to_string()),
        }
    }

    fn pat(&self, th: &Thir<'tcx>, p: &Pat<'tcx>) -> J {
        let mut v: Vec<(&str, J)> = Vec::new();
        match &p.kind {
            PatKind::Missing => v.push(("k", s("Missing"))),
            PatKind::Wild => v.push(("k", s("Wild"))),
            PatKind::Binding { name, mode, var, subpattern, .. } => {
                v.push(("k", s("Binding")));
                v.push(("name", s(name)));
                v.push(("var", self.var(*var)));
                v.push(("mode", s(format!("{:?}", mode))));
                if let Some(sp) = subpattern {
                    v.push(("sub", self.pat(th, sp)));
                }
            }
            PatKind::Variant { adt_def, variant_index, subpatterns, .. } => {
                v.push(("k", s("Variant")));
                v.push(("adt", s(self.path(adt_def.did()))));
                let var = adt_def.variant(*variant_index);
                v.push(("variant", s(var.name)));
                v.push(("vidx", n(variant_index.as_u32())));
                v.push((
                    "subs",
                    J::Arr(
                        subpatterns
                            .iter()
                            .map(|fp| {
                                o(vec![
                                    ("field", s(var.fields[fp.field].name)),
                                    ("pat", self.pat(th, &fp.pattern)),
                                ])
                            })
                            .collect(),
                    ),
                ));
            }
            PatKind::Leaf { subpatterns } => {
                v.push(("k", s("Leaf")));
                v.push((
                    "subs",
                    J::Arr(
                        subpatterns
                            .iter()
                            .map(|fp| {
                                o(vec![
                                    ("field", self.field_name(p.ty, rustc_abi::FIRST_VARIANT, fp.field)),
                                    ("pat", self.pat(th, &fp.pattern)),
                                ])
                            })
                            .collect(),
                    ),
                ));
            }
            PatKind::Deref { subpattern, .. } => {
                v.push(("k", s("Deref")));
                v.push(("sub", self.pat(th, subpattern)));
            }
            PatKind::DerefPattern { subpattern, .. } => {
                v.push(("k", s("Deref")));
                v.push(("sub", self.pat(th, subpattern)));
            }
            PatKind::Constant { value } => {
                v.push(("k", s("Constant")));
                let val = match value.try_to_leaf() {
                    Some(si) => {
                        let bits = si.to_bits(si.size());
                        if value.ty.is_signed() {
                            J::Num(si.to_int(si.size()))
                        } else {
                            J::Num(bits as i128)
                        }
                    }
                    None => s(format!("{:?}", value)),
                };
                v.push(("value", val));
            }
            PatKind::Range(r) => {
                v.push(("k", s("Range")));
                v.push(("dbg", s(format!("{:?}", r))));
                let signed = r.ty.is_signed();
                let bound = |b: &thir::PatRangeBoundary<'tcx>| -> J {
                    match b {
                        thir::PatRangeBoundary::Finite(vt) => match vt.try_to_leaf() {
                            Some(si) => {
                                if signed {
                                    J::Num(si.to_int(si.size()))
                                } else {
                                    J::Num(si.to_bits(si.size()) as i128)
                                }
                            }
                            None => J::Null,
                        },
                        _ => J::Null,
                    }
                };
                v.push(("lo", bound(&r.lo)));
                v.push(("hi", bound(&r.hi)));
                v.push(("lo_inf", J::Bool(matches!(r.lo, thir::PatRangeBoundary::NegInfinity))));
                v.push(("hi_inf", J::Bool(matches!(r.hi, thir::PatRangeBoundary::PosInfinity))));
                v.push(("inclusive", J::Bool(matches!(r.end, rustc_hir::RangeEnd::Included))));
            }
            PatKind::Or { pats } => {
                v.push(("k", s("Or")));
                v.push(("pats", J::Arr(pats.iter().map(|q| self.pat(th, q)).collect())));
            }
            PatKind::Slice { prefix, slice, suffix } | PatKind::Array { prefix, slice, suffix } => {
                v.push(("k", s("SliceOrArray")));
                v.push(("array", J::Bool(matches!(p.kind, PatKind::Array { .. }))));
                v.push(("prefix", J::Arr(prefix.iter().map(|q| self.pat(th, q)).collect())));
                if let Some(m) = slice {
                    v.push(("slice", self.pat(th, m)));
                }
                v.push(("suffix", J::Arr(suffix.iter().map(|q| self.pat(th, q)).collect())));
            }
            PatKind::Guard { subpattern, condition } => {
                v.push(("k", s("Guard")));
                v.push(("sub", self.pat(th, subpattern)));
                v.push(("cond", self.expr(th, *condition)));
            }
            PatKind::Never => v.push(("k", s("Never"))),
            PatKind::Error(_) => v.push(("k", s("Error"))),
        }
        v.push(("ty", self.ty(p.ty)));
        o(v)
    }

    // ----- expressions -----------------------------------------------------

    fn exprs(&self, th: &Thir<'tcx>, ids: &[ExprId]) -> J {
        J::Arr(ids.iter().map(|e| self.expr(th, *e)).collect())
    }

    fn block(&self, th: &Thir<'tcx>, b: thir::BlockId) -> Vec<(&'static str, J)> {
        let blk = &th.blocks[b];
        let mut stmts = Vec::new();
        for sid in blk.stmts.iter() {
            match &th.stmts[*sid].kind {
                StmtKind::Expr { expr, .. } => {
                    stmts.push(o(vec![("k", s("Expr")), ("e", self.expr(th, *expr))]))
                }
                StmtKind::Let { pattern, initializer, else_block, span, .. } => {
                    let mut v = vec![("k", s("Let")), ("pat", self.pat(th, pattern)), ("sp", self.sp(*span))];
                    if let Some(i) = initializer {
                        v.push(("init", self.expr(th, *i)));
                    }
                    if let Some(eb) = else_block {
                        v.push(("else", o(self.block(th, *eb))));
                    }
                    stmts.push(o(v));
                }
            }
        }
        let mut v = vec![("k", s("Block")), ("stmts", J::Arr(stmts))];
        if matches!(blk.safety_mode, thir::BlockSafety::ExplicitUnsafe(_)) {
            v.push(("unsafe", J::Bool(true)));
            v.push(("unsafe_sp", self.sp(blk.span)));
            v.push(("unsafe_mac", self.macro_of(blk.span)));
        }
        if let Some(e) = blk.expr {
            v.push(("expr", self.expr(th, e)));
        }
        v
    }

    fn callee(&self, owner: DefId, fty: Ty<'tcx>, v: &mut Vec<(&'static str, J)>) {
        let tcx = self.tcx;
        if let ty::FnDef(def_id, args) = fty.kind() {
            let def_id = *def_id;
            v.push(("callee", s(self.path(def_id))));
            v.push(("callee_name", match tcx.opt_item_name(def_id) { Some(x) => s(x), None => J::Null }));
            let mut gen = Vec::new();
            let mut sizes = Vec::new();
            for a in args.iter() {
                if let Some(t) = a.as_type() {
                    gen.push(self.ty(t));
                    match self.layout_size(owner, t) {
                        Some(sz) => sizes.push(n(sz as i64)),
                        None => sizes.push(J::Null),
                    }
                } else if a.as_const().is_some() {
                    gen.push(s(format!("{}", a)));
                    sizes.push(J::Null);
                }
            }
            v.push(("generics", J::Arr(gen)));
            v.push(("generic_sizes", J::Arr(sizes)));
            if let Some(tr) = tcx.trait_of_assoc(def_id) {
                v.push(("trait", s(self.path(tr))));
            }
            if let Some(im) = tcx.impl_of_assoc(def_id) {
                let st = tcx.type_of(im).instantiate_identity().skip_norm_wip();
                v.push(("impl_self", self.ty(st)));
            }
            let env = ty::TypingEnv::post_analysis(tcx, owner);
            match ty::Instance::try_resolve(tcx, env, def_id, args) {
                Ok(Some(inst)) => {
                    let rd = inst.def_id();
                    v.push(("resolved", s(self.path(rd))));
                    let kind = match inst.def {
                        ty::InstanceKind::Item(_) => "item",
                        ty::InstanceKind::Virtual(..) => "virtual",
                        ty::InstanceKind::Intrinsic(_) => "intrinsic",
                        ty::InstanceKind::ClosureOnceShim { .. } => "closure_once",
                        ty::InstanceKind::FnPtrShim(..) => "fnptr",
                        ty::InstanceKind::CloneShim(..) => "clone_shim",
                        ty::InstanceKind::DropGlue(..) => "drop",
                        _ => "other",
                    };
                    v.push(("rkind", s(kind)));
                    if let Some(im) = tcx.impl_of_assoc(rd) {
                        let st = tcx.type_of(im).instantiate_identity().skip_norm_wip();
                        v.push(("resolved_self", self.ty(st)));
                    }
                    v.push(("resolved_local", J::Bool(rd.is_local())));
                }
                _ => {}
            }
        } else {
            v.push(("callee", J::Null));
            v.push(("callee_ty", self.ty(fty)));
        }
    }

    fn expr(&self, th: &Thir<'tcx>, id: ExprId) -> J {
        let e = &th.exprs[id];
        let owner = self.cur_owner.get().expect("owner");
        let mut v: Vec<(&'static str, J)> = Vec::new();
        match &e.kind {
            ExprKind::Scope { value, .. } => return self.expr(th, *value),
            ExprKind::Use { source } => return self.expr(th, *source),
            ExprKind::NeverToAny { source } => return self.expr(th, *source),
            ExprKind::PlaceTypeAscription { source, .. } | ExprKind::ValueTypeAscription { source, .. } => {
                return self.expr(th, *source)
            }
            ExprKind::If { cond, then, else_opt, .. } => {
                v.push(("k", s("If")));
                v.push(("cond", self.expr(th, *cond)));
                v.push(("then", self.expr(th, *then)));
                if let Some(x) = else_opt {
                    v.push(("else", self.expr(th, *x)));
                }
            }
            ExprKind::Call { fun, args, from_hir_call, .. } => {
                v.push(("k", s("Call")));
                let fe = &th.exprs[*fun];
                // peel scopes of the callee expression to reach its type
                self.callee(owner, fe.ty, &mut v);
                if !matches!(fe.ty.kind(), ty::FnDef(..)) {
                    v.push(("fun", self.expr(th, *fun)));
                }
                v.push(("args", self.exprs(th, args)));
                v.push(("hir_call", J::Bool(*from_hir_call)));
            }
            ExprKind::ByUse { expr, .. } => return self.expr(th, *expr),
            ExprKind::Deref { arg } => {
                v.push(("k", s("Deref")));
                v.push(("arg", self.expr(th, *arg)));
            }
            ExprKind::Binary { op, lhs, rhs } => {
                v.push(("k", s("Binary")));
                v.push(("op", s(format!("{:?}", op))));
                v.push(("lhs", self.expr(th, *lhs)));
                v.push(("rhs", self.expr(th, *rhs)));
            }
            ExprKind::LogicalOp { op, lhs, rhs } => {
                v.push(("k", s("Logical")));
                v.push(("op", s(format!("{:?}", op))));
                v.push(("lhs", self.expr(th, *lhs)));
                v.push(("rhs", self.expr(th, *rhs)));
            }
            ExprKind::Unary { op, arg } => {
                v.push(("k", s("Unary")));
                v.push(("op", s(format!("{:?}", op))));
                v.push(("arg", self.expr(th, *arg)));
            }
            ExprKind::Cast { source } => {
                v.push(("k", s("Cast")));
                v.push(("from", self.ty(th.exprs[*source].ty)));
                v.push(("arg", self.expr(th, *source)));
            }
            ExprKind::PointerCoercion { cast, source, .. } => {
                v.push(("k", s("Coerce")));
                v.push(("cast", s(format!("{:?}", cast))));
                v.push(("from", self.ty(th.exprs[*source].ty)));
                v.push(("arg", self.expr(th, *source)));
            }
            ExprKind::Loop { body } => {
                v.push(("k", s("Loop")));
                v.push(("body", self.expr(th, *body)));
            }
            ExprKind::Let { expr, pat } => {
                v.push(("k", s("LetCond")));
                v.push(("e", self.expr(th, *expr)));
                v.push(("pat", self.pat(th, pat)));
            }
            ExprKind::Match { scrutinee, arms, match_source } => {
                v.push(("k", s("Match")));
                v.push(("source", s(format!("{:?}", match_source))));
                v.push(("scrut", self.expr(th, *scrutinee)));
                let mut av = Vec::new();
                for a in arms.iter() {
                    let arm = &th.arms[*a];
                    let mut x = vec![("pat", self.pat(th, &arm.pattern)), ("body", self.expr(th, arm.body))];
                    if let Some(g) = arm.guard {
                        x.push(("guard", self.expr(th, g)));
                    }
                    av.push(o(x));
                }
                v.push(("arms", J::Arr(av)));
            }
            ExprKind::Block { block } => {
                v = self.block(th, *block);
            }
            ExprKind::Assign { lhs, rhs } => {
                v.push(("k", s("Assign")));
                v.push(("lhs", self.expr(th, *lhs)));
                v.push(("rhs", self.expr(th, *rhs)));
            }
            ExprKind::AssignOp { op, lhs, rhs } => {
                v.push(("k", s("AssignOp")));
                v.push(("op", s(format!("{:?}", op))));
                v.push(("lhs", self.expr(th, *lhs)));
                v.push(("rhs", self.expr(th, *rhs)));
            }
            ExprKind::Field { lhs, variant_index, name } => {
                v.push(("k", s("Field")));
                let lt = th.exprs[*lhs].ty;
                v.push(("name", self.field_name(lt, *variant_index, *name)));
                v.push(("idx", n(name.as_u32())));
                v.push(("lhs", self.expr(th, *lhs)));
            }
            ExprKind::Index { lhs, index } => {
                v.push(("k", s("Index")));
                v.push(("lhs", self.expr(th, *lhs)));
                v.push(("index", self.expr(th, *index)));
            }
            ExprKind::VarRef { id } => {
                v.push(("k", s("Var")));
                v.push(("var", self.var(*id)));
                v.push(("name", s(self.tcx.hir_name(id.0))));
            }
            ExprKind::UpvarRef { var_hir_id, .. } => {
                v.push(("k", s("Upvar")));
                v.push(("var", self.var(*var_hir_id)));
                v.push(("name", s(self.tcx.hir_name(var_hir_id.0))));
            }
            ExprKind::Borrow { borrow_kind, arg } => {
                v.push(("k", s("Borrow")));
                v.push(("mut", J::Bool(matches!(borrow_kind, mir::BorrowKind::Mut { .. }))));
                v.push(("arg", self.expr(th, *arg)));
            }
            ExprKind::RawBorrow { arg, .. } => {
                v.push(("k", s("RawBorrow")));
                v.push(("arg", self.expr(th, *arg)));
            }
            ExprKind::Break { value, .. } => {
                v.push(("k", s("Break")));
                if let Some(x) = value {
                    v.push(("value", self.expr(th, *x)));
                }
            }
            ExprKind::Continue { .. } => v.push(("k", s("Continue"))),
            ExprKind::Return { value } => {
                v.push(("k", s("Return")));
                if let Some(x) = value {
                    v.push(("value", self.expr(th, *x)));
                }
            }
            ExprKind::Repeat { value, count } => {
                v.push(("k", s("Repeat")));
                v.push(("value", self.expr(th, *value)));
                match count.try_to_target_usize(self.tcx) {
                    Some(c) => v.push(("count", n(c as i64))),
                    None => v.push(("count", s(format!("{}", count)))),
                }
            }
            ExprKind::Array { fields } => {
                v.push(("k", s("Array")));
                v.push(("fields", self.exprs(th, fields)));
            }
            ExprKind::Tuple { fields } => {
                v.push(("k", s("Tuple")));
                v.push(("fields", self.exprs(th, fields)));
            }
            ExprKind::Adt(adt) => {
                v.push(("k", s("Adt")));
                v.push(("adt", s(self.path(adt.adt_def.did()))));
                let var = adt.adt_def.variant(adt.variant_index);
                v.push(("variant", s(var.name)));
                v.push(("vidx", n(adt.variant_index.as_u32())));
                v.push(("is_enum", J::Bool(adt.adt_def.is_enum())));
                let mut fs = Vec::new();
                for f in adt.fields.iter() {
                    fs.push(o(vec![("name", s(var.fields[f.name].name)), ("e", self.expr(th, f.expr))]));
                }
                v.push(("fields", J::Arr(fs)));
                match &adt.base {
                    thir::AdtExprBase::None => {}
                    thir::AdtExprBase::Base(fru) => v.push(("base", self.expr(th, fru.base))),
                    thir::AdtExprBase::DefaultFields(_) => v.push(("default_fields", J::Bool(true))),
                }
            }
            ExprKind::Closure(c) => {
                v.push(("k", s("Closure")));
                v.push(("def", s(self.path(c.closure_id.to_def_id()))));
                v.push(("upvars", self.exprs(th, &c.upvars)));
            }
            ExprKind::Literal { lit, neg } => {
                v.push(("k", s("Lit")));
                use rustc_ast::LitKind;
                match &lit.node {
                    LitKind::Int(i, _) => {
                        let x = i.get() as i128;
                        v.push(("int", J::Num(if *neg { -x } else { x })));
                    }
                    LitKind::Bool(b) => v.push(("bool", J::Bool(*b))),
                    LitKind::Char(c) => v.push(("char", n(*c as u32))),
                    LitKind::Byte(b) => v.push(("int", n(*b as i64))),
                    LitKind::Str(sym, _) => v.push(("str", s(sym))),
                    LitKind::ByteStr(bytes, _) => {
                        v.push(("bytes", J::Arr(bytes.as_byte_str().iter().map(|b| n(*b as i64)).collect())))
                    }
                    other => v.push(("other", s(format!("{:?}", other)))),
                }
            }
            ExprKind::NonHirLiteral { lit, .. } => {
                v.push(("k", s("Lit")));
                v.push(("int", J::Num(lit.to_bits(lit.size()) as i128)));
            }
            ExprKind::ZstLiteral { .. } => {
                v.push(("k", s("Zst")));
                if let ty::FnDef(d, _) = e.ty.kind() {
                    v.push(("fn", s(self.path(*d))));
                }
            }
            ExprKind::NamedConst { def_id, args, .. } => {
                v.push(("k", s("Const")));
                v.push(("path", s(self.path(*def_id))));
                v.push(("name", match self.tcx.opt_item_name(*def_id) { Some(x) => s(x), None => J::Null }));
                // an associated const of a trait is a different item per implementing type: resolve it through the
                // generic arguments when they are concrete, and leave it unevaluated when they are not (`Self::LEN`
                // inside a provided method) - the interpreter resolves those by the receiver's type
                let tcx = self.tcx;
                let in_trait = matches!(tcx.def_kind(*def_id), DefKind::AssocConst { .. }) && tcx.trait_of_assoc(*def_id).is_some();
                if in_trait {
                    use rustc_middle::ty::TypeVisitableExt;
                    v.push(("trait", s(self.path(tcx.trait_of_assoc(*def_id).unwrap()))));
                    let mut gs = Vec::new();
                    for a in args.iter() {
                        if let Some(t) = a.as_type() {
                            gs.push(self.ty(t));
                        }
                    }
                    v.push(("generics", J::Arr(gs)));
                    let mut val = J::Null;
                    if !args.has_non_region_param() {
                        let env = ty::TypingEnv::fully_monomorphized();
                        if let Ok(Some(inst)) = ty::Instance::try_resolve(tcx, env, *def_id, args) {
                            let cid = mir::interpret::GlobalId { instance: inst, promoted: None };
                            if let Ok(cv) = tcx.const_eval_global_id(env, cid, e.span) {
                                let t = tcx.type_of(inst.def_id()).instantiate_identity().skip_norm_wip();
                                val = self.const_val_to_j(cv, t, inst.def_id());
                                v.push(("resolved", s(self.path(inst.def_id()))));
                            }
                        }
                    }
                    v.push(("value", val));
                } else {
                    v.push(("value", self.const_value(*def_id)));
                }
            }
            ExprKind::ConstParam { .. } => v.push(("k", s("ConstParam"))),
            ExprKind::StaticRef { def_id, .. } => {
                v.push(("k", s("Static")));
                v.push(("path", s(self.path(*def_id))));
                v.push(("mutable", J::Bool(self.tcx.is_mutable_static(*def_id))));
            }
            ExprKind::ConstBlock { .. } => v.push(("k", s("ConstBlock"))),
            other => {
                v.push(("k", s("Other")));
                let d = format!("{:?}", other);
                v.push(("dbg", s(d.chars().take(120).collect::<String>())));
            }
        }
        v.push(("ty", self.ty(e.ty)));
        v.push(("sp", self.sp(e.span)));
        if e.span.from_expansion() {
            v.push(("mac", self.macro_of(e.span)));
            v.push(("cs", self.sp(e.span.source_callsite())));
        }
        o(v)
    }
}

fn vis_str<'tcx>(tcx: TyCtxt<'tcx>, d: DefId) -> &'static str {
    let v = tcx.visibility(d);
    if v.is_public() {
        "pub"
    } else {
        match v {
            ty::Visibility::Restricted(m) if m == rustc_hir::def_id::CRATE_DEF_ID.to_def_id() => "crate",
            _ => "priv",
        }
    }
}

fn extract<'tcx>(tcx: TyCtxt<'tcx>, name: &str) -> J {
    let cx = Cx { tcx, cur_owner: std::cell::Cell::new(None) };
    let mut adts = Vec::new();
    let mut consts = Vec::new();
    let mut impls = Vec::new();
    let mut bodies = Vec::new();
    let mut mirs = Vec::new();
    let mut fns = Vec::new();
    let mut statics = Vec::new();

    // ---- items ----------------------------------------------------------
    for id in tcx.hir_free_items() {
        let item = tcx.hir_item(id);
        let did = item.owner_id.to_def_id();
        cx.cur_owner.set(Some(did));
        match tcx.def_kind(did) {
            DefKind::Struct | DefKind::Enum | DefKind::Union => {
                let adt = tcx.adt_def(did);
                let t = tcx.type_of(did).instantiate_identity().skip_norm_wip();
                let env = ty::TypingEnv::post_analysis(tcx, did);
                let layout = tcx.layout_of(env.as_query_input(t)).ok();
                let mut v = vec![
                    ("path", s(cx.path(did))),
                    ("kind", s(format!("{:?}", tcx.def_kind(did)))),
                    ("vis", s(vis_str(tcx, did))),
                    ("repr", s(format!("{:?}", adt.repr()))),
                    ("repr_c", J::Bool(adt.repr().c())),
                    ("repr_packed", J::Bool(adt.repr().packed())),
                    ("sp", cx.sp(item.span)),
                    ("generic", J::Bool(tcx.generics_of(did).count() > 0 && tcx.generics_of(did).own_params.iter().any(|p| matches!(p.kind, ty::GenericParamDefKind::Type { .. })))),
                ];
                if let Some(it) = adt.repr().int {
                    v.push(("repr_int", s(format!("{:?}", it))));
                }
                if let Some(l) = &layout {
                    v.push(("size", n(l.size.bytes() as i64)));
                    v.push(("align", n(l.align.abi.bytes() as i64)));
                }
                let mut variants = Vec::new();
                for (vi, var) in adt.variants().iter_enumerated() {
                    let mut fields = Vec::new();
                    for (fi, f) in var.fields.iter_enumerated() {
                        let ft = tcx.type_of(f.did).instantiate_identity().skip_norm_wip();
                        let mut fv = vec![
                            ("name", s(f.name)),
                            ("ty", cx.nty(did, ft)),
                            ("vis", s(vis_str(tcx, f.did))),
                        ];
                        if let Some(sz) = cx.layout_size(did, ft) {
                            fv.push(("size", n(sz as i64)));
                        }
                        if adt.is_struct() {
                            if let Some(l) = &layout {
                                fv.push(("off", n(l.fields.offset(fi.as_usize()).bytes() as i64)));
                            }
                        }
                        fields.push(o(fv));
                    }
                    let mut vv = vec![("name", s(var.name)), ("fields", J::Arr(fields))];
                    if adt.is_enum() {
                        let d = adt.discriminant_for_variant(tcx, vi);
                        let bits = d.val;
                        vv.push(("discr", J::Num(bits as i128)));
                    }
                    variants.push(o(vv));
                }
                v.push(("variants", J::Arr(variants)));
                adts.push(o(v));
            }
            DefKind::Const { .. } => {
                let t = tcx.type_of(did).instantiate_identity().skip_norm_wip();
                consts.push(o(vec![
                    ("path", s(cx.path(did))),
                    ("ty", cx.ty(t)),
                    ("vis", s(vis_str(tcx, did))),
                    ("value", cx.const_value(did)),
                    ("sp", cx.sp(item.span)),
                ]));
            }
            DefKind::Static { .. } => {
                statics.push(o(vec![
                    ("path", s(cx.path(did))),
                    ("mutable", J::Bool(tcx.is_mutable_static(did))),
                    ("sp", cx.sp(item.span)),
                ]));
            }
            DefKind::Impl { of_trait } => {
                let st = tcx.type_of(did).instantiate_identity().skip_norm_wip();
                let mut v = vec![
                    ("self", cx.ty(st)),
                    ("sp", cx.sp(item.span)),
                    ("mac", cx.macro_of(item.span)),
                    ("automatically_derived", J::Bool(tcx.is_automatically_derived(did))),
                ];
                if of_trait {
                    let tr = tcx.impl_trait_ref(did).instantiate_identity().skip_norm_wip();
                    v.push(("trait", s(cx.path(tr.def_id))));
                    v.push(("trait_ref", s(format!("{}", tr))));
                }
                let mut items = Vec::new();
                for ai in tcx.associated_items(did).in_definition_order() {
                    items.push(o(vec![
                        ("name", s(ai.name())),
                        ("def", s(cx.path(ai.def_id))),
                        ("kind", s(format!("{:?}", ai.kind).chars().take(12).collect::<String>())),
                    ]));
                    if matches!(ai.kind, ty::AssocKind::Const { .. }) {
                        let t = tcx.type_of(ai.def_id).instantiate_identity().skip_norm_wip();
                        consts.push(o(vec![
                            ("path", s(cx.path(ai.def_id))),
                            ("ty", cx.ty(t)),
                            ("vis", s(vis_str(tcx, ai.def_id))),
                            ("value", cx.const_value(ai.def_id)),
                        ]));
                    }
                }
                v.push(("items", J::Arr(items)));
                // associated consts the impl inherits from the trait's defaults (`const LENGTH: u8 = size_of::<Self>() as u8`):
                // evaluated at the impl's own arguments when these are concrete
                if tcx.impl_opt_trait_ref(did).is_some() {
                    use rustc_middle::ty::TypeVisitableExt;
                    let tr = tcx.impl_trait_ref(did).instantiate_identity().skip_norm_wip();
                    if tr.def_id.is_local() && !tr.args.has_non_region_param() {
                        let own: Vec<_> = tcx.associated_items(did).in_definition_order().filter_map(|ai| ai.trait_item_def_id()).collect();
                        for ti in tcx.associated_items(tr.def_id).in_definition_order() {
                            if !matches!(ti.kind, ty::AssocKind::Const { .. }) || !tcx.defaultness(ti.def_id).has_value() || own.contains(&ti.def_id) {
                                continue;
                            }
                            let env = ty::TypingEnv::fully_monomorphized();
                            if let Ok(Some(inst)) = ty::Instance::try_resolve(tcx, env, ti.def_id, tr.args) {
                                let cid = mir::interpret::GlobalId { instance: inst, promoted: None };
                                if let Ok(cv) = tcx.const_eval_global_id(env, cid, tcx.def_span(did)) {
                                    let t = tcx.type_of(ti.def_id).instantiate(tcx, tr.args).skip_norm_wip();
                                    let self_ty = match cx.ty(tr.self_ty()) { J::Str(x) => x, _ => String::new() };
                                    consts.push(o(vec![
                                        ("path", s(format!("<{} as {}>::{}", self_ty, cx.path(tr.def_id), ti.name()))),
                                        ("ty", cx.ty(t)),
                                        ("vis", s("priv")),
                                        ("value", cx.const_val_to_j(cv, t, ti.def_id)),
                                        ("inherited_default", J::Bool(true)),
                                    ]));
                                }
                            }
                        }
                    }
                }
                impls.push(o(v));
            }
            DefKind::Trait => {
                // default values of a local trait's associated consts (an impl that does not override one uses it)
                for ai in tcx.associated_items(did).in_definition_order() {
                    if matches!(ai.kind, ty::AssocKind::Const { .. }) && tcx.defaultness(ai.def_id).has_value() {
                        let t = tcx.type_of(ai.def_id).instantiate_identity().skip_norm_wip();
                        consts.push(o(vec![
                            ("path", s(cx.path(ai.def_id))),
                            ("ty", cx.ty(t)),
                            ("vis", s(vis_str(tcx, ai.def_id))),
                            ("value", cx.const_value(ai.def_id)),
                            ("trait_default", J::Bool(true)),
                        ]));
                    }
                }
            }
            _ => {}
        }
    }

    // ---- bodies -----------------------------------------------------------
    let mut owners: Vec<LocalDefId> = tcx.hir_body_owners().collect();
    owners.sort_by_key(|d| d.local_def_index.as_u32());
    for ldid in owners.iter().copied() {
        let did = ldid.to_def_id();
        let kind = tcx.def_kind(did);
        if !matches!(kind, DefKind::Fn | DefKind::AssocFn | DefKind::Closure) {
            continue;
        }
        cx.cur_owner.set(Some(did));
        let span = tcx.def_span(did);
        // skip derive-generated bodies (their impls are still listed above)
        let parent_impl = if matches!(kind, DefKind::AssocFn) { tcx.impl_of_assoc(did) } else { None };
        let derived = parent_impl.map(|i| tcx.is_automatically_derived(i)).unwrap_or(false);
        let mut v = vec![
            ("def", s(cx.path(did))),
            ("kind", s(format!("{:?}", kind))),
            ("name", if matches!(kind, DefKind::Closure) { J::Null } else { match tcx.opt_item_name(did) { Some(x) => s(x), None => J::Null } }),
            ("sp", cx.sp(span)),
            ("mac", cx.macro_of(span)),
            ("derived", J::Bool(derived)),
            ("idx", n(ldid.local_def_index.as_u32())),
        ];
        if matches!(kind, DefKind::Fn | DefKind::AssocFn) {
            v.push(("vis", s(vis_str(tcx, did))));
            v.push(("generics", n(tcx.generics_of(did).count() as i64)));
            {
                // names of the type parameters in generic-argument order (parent impl first)
                let mut names = Vec::new();
                let g = tcx.generics_of(did);
                for i in 0..g.count() {
                    let p = g.param_at(i, tcx);
                    if matches!(p.kind, ty::GenericParamDefKind::Type { .. } | ty::GenericParamDefKind::Const { .. }) {
                        names.push(s(p.name));
                    }
                }
                v.push(("type_params", J::Arr(names)));
            }
        }
        if let Some(im) = parent_impl {
            let st = tcx.type_of(im).instantiate_identity().skip_norm_wip();
            v.push(("self_ty", cx.ty(st)));
            if let Some(tr) = tcx.impl_opt_trait_ref(im) {
                let tr = tr.instantiate_identity().skip_norm_wip();
                v.push(("trait", s(cx.path(tr.def_id))));
            }
        } else if matches!(kind, DefKind::AssocFn) {
            if let Some(tr) = tcx.trait_of_assoc(did) {
                v.push(("trait_default_of", s(cx.path(tr))));
            }
        }
        let is_default = parent_impl
            .and_then(|im| tcx.impl_opt_trait_ref(im))
            .map(|tr| cx.path(tr.instantiate_identity().skip_norm_wip().def_id) == "core::default::Default")
            .unwrap_or(false);
        if derived && !is_default {
            fns.push(o(v));
            continue;
        }
        match tcx.thir_body(ldid) {
            Ok((steal, root)) => {
                let th = steal.borrow();
                let mut params = Vec::new();
                for p in th.params.iter() {
                    let mut pv = vec![("ty", cx.nty(ldid.to_def_id(), p.ty))];
                    if let Some(pat) = &p.pat {
                        pv.push(("pat", cx.pat(&th, pat)));
                    }
                    if let Some(sk) = &p.self_kind {
                        pv.push(("self_kind", s(format!("{:?}", sk))));
                    }
                    params.push(o(pv));
                }
                v.push(("params", J::Arr(params)));
                v.push(("ret", cx.ty(th.exprs[root].ty)));
                v.push(("body", cx.expr(&th, root)));
            }
            Err(_) => {
                v.push(("body", J::Null));
            }
        }
        bodies.push(o(v));
    }

    // ---- MIR sites (after THIR has been dumped: mir_built steals it) -----------
    for ldid in owners.iter().copied() {
        let did = ldid.to_def_id();
        let kind = tcx.def_kind(did);
        if !matches!(kind, DefKind::Fn | DefKind::AssocFn | DefKind::Closure) {
            continue;
        }
        let parent_impl = if matches!(kind, DefKind::AssocFn) { tcx.impl_of_assoc(did) } else { None };
        if parent_impl.map(|i| tcx.is_automatically_derived(i)).unwrap_or(false) {
            continue;
        }
        cx.cur_owner.set(Some(did));
        let steal = tcx.mir_built(ldid);
        if steal.is_stolen() {
            continue;
        }
        let body = steal.borrow();
        let mut asserts = Vec::new();
        let mut casts = Vec::new();
        for bb in body.basic_blocks.iter() {
            for st in bb.statements.iter() {
                if let mir::StatementKind::Assign(b) = &st.kind {
                    if let mir::Rvalue::Cast(mir::CastKind::IntToInt, op, to) = &b.1 {
                        let from = op.ty(&body.local_decls, tcx);
                        casts.push(o(vec![
                            ("from", cx.ty(from)),
                            ("to", cx.ty(*to)),
                            ("sp", cx.sp(st.source_info.span)),
                            ("mac", cx.macro_of(st.source_info.span)),
                        ]));
                    }
                }
            }
            if let Some(t) = &bb.terminator {
                if let mir::TerminatorKind::Assert { msg, .. } = &t.kind {
                    let (k, op) = match &**msg {
                        mir::AssertKind::Overflow(op, ..) => ("overflow", format!("{:?}", op)),
                        mir::AssertKind::OverflowNeg(_) => ("overflow", "Neg".to_string()),
                        mir::AssertKind::BoundsCheck { .. } => ("bounds", String::new()),
                        mir::AssertKind::DivisionByZero(_) => ("div0", String::new()),
                        mir::AssertKind::RemainderByZero(_) => ("rem0", String::new()),
                        _ => ("other", String::new()),
                    };
                    asserts.push(o(vec![("kind", s(k)), ("op", s(op)), ("sp", cx.sp(t.source_info.span))]));
                }
            }
        }
        mirs.push(o(vec![
            ("def", s(cx.path(did))),
            ("asserts", J::Arr(asserts)),
            ("int_casts", J::Arr(casts)),
            ("blocks", n(body.basic_blocks.len() as i64)),
        ]));
    }

    // ---- provenance -----------------------------------------------------------
    let mut sources = Vec::new();
    for f in tcx.sess.source_map().files().iter() {
        if let rustc_span::FileName::Real(r) = &f.name {
            if let Some(p) = r.local_path() {
                if f.cnum == LOCAL_CRATE {
                    if let Some(src) = &f.src {
                        let mut h: u64 = 0xcbf29ce484222325;
                        for b in src.as_bytes() {
                            h ^= *b as u64;
                            h = h.wrapping_mul(0x100000001b3);
                        }
                        sources.push(o(vec![
                            ("path", s(p.to_string_lossy())),
                            ("fnv1a64", s(format!("{:016x}", h))),
                            ("bytes", n(src.len() as i64)),
                        ]));
                    }
                }
            }
        }
    }

    // ---- shortest path by which each local item can be named from the crate root (through `mod`, `use` and
    //      `pub use` bindings of any visibility).  A module split that keeps the old names importable keeps these.
    let mut canon: Vec<J> = Vec::new();
    {
        use rustc_hir::def::Res;
        use std::collections::{HashMap, HashSet, VecDeque};
        let mut best: HashMap<DefId, Vec<String>> = HashMap::new();
        let mut seen: HashSet<DefId> = HashSet::new();
        let mut q: VecDeque<(rustc_span::def_id::LocalDefId, Vec<String>)> = VecDeque::new();
        q.push_back((rustc_span::def_id::CRATE_DEF_ID, Vec::new()));
        seen.insert(rustc_span::def_id::CRATE_DEF_ID.to_def_id());
        while let Some((m, path)) = q.pop_front() {
            if path.len() > 5 {
                continue;
            }
            for ch in tcx.module_children_local(m).iter() {
                if let Res::Def(kind, did) = ch.res {
                    if !did.is_local() {
                        continue;
                    }
                    let nm = ch.ident.name.to_string();
                    if nm == "_" {
                        continue;
                    }
                    let mut p = path.clone();
                    p.push(nm);
                    match kind {
                        DefKind::Mod => {
                            if seen.insert(did) {
                                best.entry(did).or_insert(p.clone());
                                q.push_back((did.expect_local(), p));
                            }
                        }
                        DefKind::Struct | DefKind::Enum | DefKind::Union | DefKind::Trait | DefKind::Fn | DefKind::Const { .. } | DefKind::Static { .. } | DefKind::TyAlias => {
                            let defp = with_no_trimmed_paths!(tcx.def_path_str(did));
                            let e = best.entry(did).or_insert(p.clone());
                            // BFS order gives the shortest first; among equally short names prefer the defining one
                            if p.len() == e.len() && p.join("::") == defp {
                                *e = p;
                            }
                        }
                        _ => {}
                    }
                }
            }
        }
        let mut rows: Vec<(String, String)> = Vec::new();
        for (did, p) in best.iter() {
            let defp = with_no_trimmed_paths!(tcx.def_path_str(*did));
            let cp = p.join("::");
            if cp != defp {
                rows.push((defp, cp));
            }
        }
        rows.sort();
        for (d, c) in rows {
            canon.push(o(vec![("def", s(d)), ("canon", s(c))]));
        }
    }

    let sess = tcx.sess;
    o(vec![
        ("crate", s(name)),
        ("canon_paths", J::Arr(canon)),
        (
            "cfg",
            o(vec![
                ("overflow_checks", J::Bool(sess.overflow_checks())),
                ("debug_assertions", J::Bool(sess.opts.debug_assertions)),
                ("target", s(sess.opts.target_triple.tuple())),
                ("pointer_width", n(sess.target.pointer_width as i64)),
                ("endian", s(format!("{:?}", sess.target.endian))),
                ("cwd", s(std::env::current_dir().map(|p| p.to_string_lossy().to_string()).unwrap_or_default())),
            ]),
        ),
        ("sources", J::Arr(sources)),
        ("adts", J::Arr(adts)),
        ("consts", J::Arr(consts)),
        ("statics", J::Arr(statics)),
        ("impls", J::Arr(impls)),
        ("derived_fns", J::Arr(fns)),
        ("bodies", J::Arr(bodies)),
        ("mir", J::Arr(mirs)),
    ])
}
