#!/usr/bin/env python3
"""Development aid: apply ONE perturbation (function, span, kind) to the facts of /repo and run the given rules.
   tools/perturb_one.py <function def> <span substring> <kind: lit|op|assignop|negate|swap> [Cxx ...]"""
import sys, os, io, contextlib, importlib, shutil
HERE = os.path.dirname(os.path.dirname(os.path.abspath(__file__)))
sys.path.insert(0, os.path.join(HERE, 'engine')); sys.path.insert(0, os.path.join(HERE, 'spec')); sys.path.insert(0, HERE)
sys.setrecursionlimit(20000)
import importlib.machinery, importlib.util
ld = importlib.machinery.SourceFileLoader('chk', os.path.join(HERE, 'check'))
spec = importlib.util.spec_from_loader('chk', ld); chk = importlib.util.module_from_spec(spec); ld.exec_module(chk)
from ir import Facts
import aliases, perturb, framework
d, span, kind = sys.argv[1:4]; pids = sys.argv[4:] or ['C%02d' % i for i in range(1, 19)]
ff, out = chk.extract('/repo'); f = Facts(ff); aliases.resolve(f); shutil.rmtree(out, ignore_errors=True)
cands = [(p, k) for p, k in perturb.sites_of(f.bodies[d]['body']) if k == kind]
hit = None
for p, k in cands:
    r = perturb.apply(f.bodies[d]['body'], p, k)
    if r and span in str(r[2]): hit = r; break
if not hit: print('no such site; candidates:', [perturb.apply(f.bodies[d]['body'], p, k)[1:] for p, k in cands][:20]); sys.exit(2)
nb, desc, sp = hit
print('perturbation:', desc, 'at', sp)
raw2 = dict(f.raw); raw2['bodies'] = [(dict(b, body=nb) if b['def'] == d else b) for b in f.raw['bodies']]
for pid in pids:
    mod = importlib.import_module('rules.' + pid)
    base = framework.Report(pid)
    with contextlib.redirect_stderr(io.StringIO()): mod.run(framework.Ctx(f, None, '/repo', 'quick', 0), base)
    f2 = Facts(None, raw=raw2); f2._aliases_done = True; f2.alias_renames = f.alias_renames
    rep = framework.Report(pid)
    with contextlib.redirect_stderr(io.StringIO()): mod.run(framework.Ctx(f2, None, '/repo', 'quick', 0), rep)
    new = [v for v in rep.violations if v['key'] not in {x['key'] for x in base.violations}]
    print(pid, 'new reports:', len(new))
    for v in new[:4]: print('    ', v['rule'], v['subject'], str(v['msg'])[:220])
    if os.environ.get('SHOW'):
        for o in rep.obligations:
            if os.environ['SHOW'] in str(o.get('subject')): print('   OB', o['rule'], o['subject'], o['ok'], str(o.get('detail'))[:300])
    if os.environ.get('EVAL'):
        from model import new_interp, run_fn, sym_args
        from sym import show
        for ff_ in (f, f2):
            I = new_interp(ff_); b_ = ff_.bodies[os.environ['EVAL']]
            r = run_fn(I, b_['def'], sym_args(I, b_))
            print('   EVAL', {k: (show(v) if isinstance(v, tuple) else repr(v))[:300] for k, v in getattr(r, 'fields', {}).items()}, I.tops[:2])
