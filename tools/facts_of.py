#!/usr/bin/env python3
"""debug helper: extract the facts of a crate directory to a file.  tools/facts_of.py <repo> <out.json>"""
import sys, os, shutil, importlib.machinery, importlib.util
HERE = os.path.dirname(os.path.dirname(os.path.abspath(__file__)))
ld = importlib.machinery.SourceFileLoader('chk', os.path.join(HERE, 'check'))
spec = importlib.util.spec_from_loader('chk', ld); chk = importlib.util.module_from_spec(spec); ld.exec_module(chk)
ff, out = chk.extract(sys.argv[1]); shutil.copy(ff, sys.argv[2]); shutil.rmtree(out, ignore_errors=True)
