#!/usr/bin/env python3
"""Development aid (not a registered check): cross-property perturbation audit.

Samples one-construct perturbations (engine/perturb.py) over every non-test function of the crate, re-runs ALL 18
rules on each perturbed copy of the facts, and lists the perturbations that no rule notices.  Those are either
behaviour-preserving (x + 0 -> x - 0, a swapped pair of commuting statements, a dead initial value) or a blind spot.
   tools/audit_all.py [N] [seed] [jobs]"""
import sys, os, json, random, importlib, multiprocessing, traceback, io, contextlib
HERE = os.path.dirname(os.path.dirname(os.path.abspath(__file__)))
sys.path.insert(0, os.path.join(HERE, 'engine')); sys.path.insert(0, os.path.join(HERE, 'spec')); sys.path.insert(0, HERE)
sys.setrecursionlimit(20000)
import importlib.machinery, importlib.util, shutil

def load_facts(ff):
    from ir import Facts
    import aliases
    f = Facts(ff); aliases.resolve(f); return f

PIDS = ['C%02d' % i for i in range(1, 19)]
_F = None
def init(ff):
    global _F
    _F = load_facts(ff)
    global _BASE
    _BASE = {}
    import framework
    for pid in PIDS:
        mod = importlib.import_module('rules.' + pid)
        rep = framework.Report(pid)
        with contextlib.redirect_stderr(io.StringIO()), contextlib.redirect_stdout(io.StringIO()):
            try: mod.run(framework.Ctx(_F, None, '/repo', 'quick', 0), rep)
            except Exception: pass
        _BASE[pid] = {v['key'] for v in rep.violations}

def work(site):
    import perturb, framework
    from ir import Facts
    d, path, kind = site
    r = perturb.apply(_F.bodies[d]['body'], path, kind)
    if r is None: return None
    nb, desc, sp = r
    raw2 = dict(_F.raw); raw2['bodies'] = [(dict(b, body=nb) if b['def'] == d else b) for b in _F.raw['bodies']]
    noticed = []
    for pid in PIDS:
        mod = importlib.import_module('rules.' + pid)
        try:
            f2 = Facts(None, raw=raw2); f2._aliases_done = True; f2.alias_renames = _F.alias_renames
            rep = framework.Report(pid)
            with contextlib.redirect_stderr(io.StringIO()), contextlib.redirect_stdout(io.StringIO()):
                mod.run(framework.Ctx(f2, None, '/repo', 'quick', 0), rep)
            if {v['key'] for v in rep.violations} - _BASE[pid]: noticed.append(pid)
        except Exception as ex:
            noticed.append(pid + '!')
    return {'function': d, 'where': sp, 'perturbation': desc, 'noticed_by': noticed}

def main():
    n = int(sys.argv[1]) if len(sys.argv) > 1 else 200
    seed = int(sys.argv[2]) if len(sys.argv) > 2 else 1
    jobs = int(sys.argv[3]) if len(sys.argv) > 3 else 14
    ld = importlib.machinery.SourceFileLoader('chk', os.path.join(HERE, 'check'))
    spec = importlib.util.spec_from_loader('chk', ld); chk = importlib.util.module_from_spec(spec); ld.exec_module(chk)
    ff, out = chk.extract('/repo')
    import perturb
    f = load_facts(ff)
    pool = []
    for d, b in sorted(f.bodies.items()):
        if b.get('body') is None or b.get('derived') or '::tests::' in d or 'lib_tests' in d or d.startswith('{') : continue
        if (b.get('sp') or '').startswith('/'): continue
        for path, kind in perturb.sites_of(b['body']):
            if not os.environ.get('KINDS') or kind in os.environ['KINDS'].split(','): pool.append((d, path, kind))
    random.Random(seed).shuffle(pool)
    picked = pool[:n]
    with multiprocessing.Pool(jobs, initializer=init, initargs=(ff,)) as p:
        rows = [r for r in p.map(work, picked, chunksize=1) if r]
    shutil.rmtree(out, ignore_errors=True)
    un = [r for r in rows if not r['noticed_by']]
    print('%d perturbations over %d sites; noticed by at least one rule: %d; by none: %d' % (len(rows), len(pool), len(rows) - len(un), len(un)))
    for r in un: print('  UNNOTICED %s %s: %s' % (r['function'], r['where'], r['perturbation']))
    json.dump(rows, open('/tmp/audit_all.json', 'w'), indent=1)

if __name__ == '__main__':
    main()
