#!/usr/bin/env python3
"""Rewrites the rule inventory of DESIGN.md section 8.8 from evidence/*.json (run after tools/runall.sh)."""
import json, os, re, glob
ROOT = os.path.dirname(os.path.dirname(os.path.abspath(__file__)))
rows = []
for p in sorted(glob.glob(os.path.join(ROOT, 'evidence', 'C*.json'))):
    d = json.load(open(p)); c = d['coverage']
    by = c.get('obligations_by_rule', {})
    rules = ', '.join('%s %d' % (k, v) for k, v in sorted(by.items(), key=lambda kv: (-kv[1], kv[0])))
    rows.append('| %s | %s | %d | %d | %s |' % (d['property_id'], d['level'], c['obligations'], c['functions_analysed'], rules))
tbl = '| property | level | obligations | functions analysed | obligations per rule (quick tier, current tree) |\n|---|---|---|---|---|\n' + '\n'.join(rows) + '\n'
p = os.path.join(ROOT, 'DESIGN.md'); t = open(p).read()
t = re.sub(r'<!-- RULE-TABLE-BEGIN -->.*<!-- RULE-TABLE-END -->', '<!-- RULE-TABLE-BEGIN -->\n' + tbl + '<!-- RULE-TABLE-END -->', t, flags=re.S)
open(p, 'w').write(t)
print(len(rows), 'rows')
