#!/usr/bin/env python3
"""kf.py fixed <prop> <key> <commit-subject-substring> <what> | known <prop> <key> <what>"""
import json, sys, subprocess
p = '/verif/known_findings.json'
d = json.load(open(p))
if sys.argv[1] == 'fixed':
    _, _, prop, key, sub, what = sys.argv
    log = subprocess.check_output(['git', '-C', '/repo', 'log', '--format=%h %s']).decode().splitlines()
    h = [l.split()[0] for l in log if sub in l][0]
    d['findings'] = [x for x in d['findings'] if not (x['property'] == prop and x['key'] == key)]
    d['findings'].append({'property': prop, 'key': key, 'status': 'fixed', 'commit': h, 'what': what, 'line': 'fixed: property=%s %s %s' % (prop, h, what)})
else:
    _, _, prop, key, what = sys.argv
    d['findings'] = [x for x in d['findings'] if not (x['property'] == prop and x['key'] == key)]
    d['findings'].append({'property': prop, 'key': key, 'status': 'known', 'what': what})
json.dump(d, open(p, 'w'), indent=1)
