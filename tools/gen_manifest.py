#!/usr/bin/env python3
"""Regenerates /verif/MANIFEST.json from the table below (keeps it valid at all times)."""
import json, os, sys
HERE = os.path.dirname(os.path.dirname(os.path.abspath(__file__)))
sys.path.insert(0, HERE); sys.path.insert(0, os.path.join(HERE, 'engine'))

CLAIMS = {
 'C01': dict(cat='proof', ref='DESIGN 3 C01', technique='abstract interpretation (emission-shape + checksum-ledger analysis over THIR), inductive invariant over the public API',
   text='Every obligation of the checksum invariant (ledger == byte-sum of the emission shape; stored byte == -ledger) is discharged symbolically for every public constructor and mutator of all 18 header tables, FADT, RSDP and Sdt: it holds for all arguments and, by induction, all operation sequences - including the 255->256 carries no test reaches.',
   note='Trusted: rustc THIR/layouts, the std transfer functions, the byte-sum algebra; foreign T in add_structure<T> and direct writes to pub fields are out of reach.'),
 'C02': dict(cat='other', ref='DESIGN 3 C02', technique='abstract interpretation: symbolic size of the emission shape vs length-field value, inductive over the public API',
   text='L == |E| as a linear identity after every constructor and preserved by every public mutator (delta form with the invariant as hypothesis), for all 18 header tables, FADT, RSDP, FACS, Sdt and the self-maintained RQSC entry lengths. One obligation is a recorded finding (RDPAS 16 vs 17), hence not proof level.',
   note='Narrowing casts of lengths are assumed value-preserving (C18 owns them); tables < 4 GiB.'),
 'C17': dict(cat='proof', ref='DESIGN 3 C17', technique='abstract interpretation of each accumulator operation into an affine map over Z/256; term identity with the specified map',
   text='Each Checksum operation, the five sink entry points and the two helpers are evaluated once on a symbolic state; the resulting Z256 map is identical to the specified one, which covers all 256x256 state/operand pairs and all byte strings.',
   note='wrapping_add/sub modelled as +/- mod 256; loop summarisation of byte folds is trusted.'),
}
NOT_YET = 'check not built yet (build in progress; design in DESIGN.md section 3)'

def main():
    props = [json.loads(l) for l in open(os.path.join(HERE, 'properties.jsonl'))]
    have = {f[:-3] for f in os.listdir(os.path.join(HERE, 'rules')) if f.startswith('C') and f.endswith('.py')}
    checks = []; na = []
    for p in props:
        pid = p['id']
        if pid in CLAIMS and pid in have:
            c = CLAIMS[pid]
            checks.append({'property_id': pid, 'quick_cmd': './check %s' % pid, 'thorough_cmd': './check %s --tier thorough' % pid,
                           'evidence_file': 'evidence/%s.json' % pid, 'replay_cmd_template': './check %s --replay {path}' % pid,
                           'engine': 'engine', 'technique': c['technique'],
                           'level_claimed': {'category': c['cat'], 'text': c['text'], 'design_ref': c['ref']}, 'level_note': c['note']})
        else:
            na.append({'property_id': pid, 'reason': NA.get(pid, NOT_YET)})
    m = {'version': 1, 'setup_cmd': './setup.sh',
         'hooks': {'guard': 'rust_vmm_acpi_tables_verif', 'enable': 'no hook code exists: the checks read the type-checked program of /repo as built by `cargo +nightly check` with the repository\'s own flags (RUSTC_WORKSPACE_WRAPPER=tools/afx)',
                   'baseline_off_cmd': 'cd /repo && cargo test --workspace --no-fail-fast --offline', 'source_commits': [], 'add_only': True},
         'engines': [{'name': 'afx', 'path': 'tools/afx', 'serves_properties': sorted(CLAIMS), 'kind_free_text': 'rustc_private driver: dumps typed THIR, resolved callees, layouts, evaluated constants, MIR overflow/cast sites'},
                     {'name': 'engine', 'path': 'engine', 'serves_properties': sorted(CLAIMS), 'kind_free_text': 'Python abstract interpreter over the THIR facts (symbolic term / emission-shape / byte-sum domains) + rule modules in rules/'}],
         'checks': checks, 'not_applicable': na,
         'notes': 'Static analysis only: nothing here runs the crate, its tests, a fuzzer or a solver. See DESIGN.md.'}
    json.dump(m, open(os.path.join(HERE, 'MANIFEST.json'), 'w'), indent=1)
    print('MANIFEST: %d checks, %d not_applicable' % (len(checks), len(na)))

NA = {}
if __name__ == '__main__':
    main()
