#!/usr/bin/env python3
"""Regenerates /verif/MANIFEST.json from the table below (keeps it valid at all times)."""
import json, os, sys
HERE = os.path.dirname(os.path.dirname(os.path.abspath(__file__)))
sys.path.insert(0, HERE); sys.path.insert(0, os.path.join(HERE, 'engine'))

CLAIMS = {
 'C01': dict(cat='proof', ref='DESIGN 3 C01', technique='abstract interpretation (emission-shape + checksum-ledger analysis over THIR), inductive invariant over the public API',
   text='Every obligation of the checksum invariant (ledger == byte-sum of the emission shape; stored byte == -ledger) is discharged symbolically for every public constructor and mutator of all 18 header tables, FADT, RSDP and Sdt: it holds for all arguments and, by induction, all operation sequences - including the 255->256 carries no test reaches.',
   note='Trusted: rustc THIR/layouts, the std transfer functions, the byte-sum algebra; foreign T in add_structure<T> and direct writes to pub fields are out of reach.'),
 'C02': dict(cat='other', ref='DESIGN 3 C02', technique='abstract interpretation: symbolic size of the emission shape vs length-field value, inductive over the public API',
   text='L == |E| as a linear identity after every constructor and preserved by every public mutator (delta form with the invariant as hypothesis), for all 18 header tables, FADT, RSDP, FACS, Sdt and the self-maintained RQSC entry lengths. One obligation is a recorded finding (RDPAS 16 vs 17), hence not proof level.',
   note='Narrowing casts of lengths are assumed value-preserving (C18 owns them); tables < 4 GiB.'),
 'C17': dict(cat='proof', ref='DESIGN 3 C17', technique='abstract interpretation of each accumulator operation into an affine map over Z/256; term identity with the specified map',
   text='Each Checksum operation, the five sink entry points and the two helpers are evaluated once on a symbolic state; the resulting Z256 map is identical to the specified one, which covers all 256x256 state/operand pairs and all byte strings.',
   note='wrapping_add/sub modelled as +/- mod 256; loop summarisation of byte folds is trusted.'),

 'C05': dict(cat='proof', ref='DESIGN 3 C05', technique='abstract interpretation on symbolic table states: counter/length pairing and read-before-advance; construction-site and verbatim-flow rules',
   text='For PPTT, RHCT, RIMT and VIOT the offset counter equals the declared length after construction and is advanced by exactly the length delta in all 13 add paths; the returned handle is the pre-advance value; handle newtypes cannot be forged; each of the 8 handle-accepting APIs stores the handle unmodified in one field of the right width at the specified offset. Holds for all interleavings by induction.',
   note='Relies on C02 (length == bytes emitted); cross-table misuse of handles and counter overflow (C18) are out of scope.'),
 'C06': dict(cat='other', ref='DESIGN 3 C06', technique='abstract interpretation: emission shape of constructor(args) vs grammar production table (spec/aml.py), incl. PkgLength framing',
   text='Each of the 58 AML constructors is evaluated on symbolic arguments and its emission shape equals its ACPI ch.20 production: opcodes, operand order wired to the right arguments, flag packing, PkgLength covering exactly the rest of the object. The lift from per-constructor premises to whole trees is a structural induction argued in DESIGN, not mechanised - hence level other.',
   note='Trusted: my production table; grammar unambiguity; name alphabet not validated by the crate.'),
 'C07': dict(cat='proof', ref='DESIGN 3 C07', technique='interval partition by the function\'s own comparisons + bit-slice normal form per cell; framing rule at call sites',
   text='create_pkg_length is analysed for both include_self values over all 0 <= n < 2^28 by partitioning on its comparison constants (20 cells); on each cell every emitted byte is normalised to const | bits[a,b) of (len+k) and matches the specification, decode is exact and the inclusive form is shortest. 17 call sites pass the length of exactly the bytes that follow.',
   note='n >= 2^28 is excluded by the property (C18 site).'),
 'C08': dict(cat='proof', ref='DESIGN 3 C08', technique='interval partition of the value range by the impls\' comparisons; per-cell identity with the specification table',
   text='The five integer impls (delegation chain inlined) are partitioned by their comparison constants; on every cell of every type the flat emission equals the specification table entry, so every value of every type is covered and equal values give equal bytes.',
   note='64-bit target (usize cfg arm as built).'),
 'C09': dict(cat='other', ref='DESIGN 3 C09', technique='interval partition on the segment count for the emitter; abstract evaluation of the parser with guard-dominates-store rule; semantic comparison of the parser result (split offset by case analysis, refusal by assertion or copy length)',
   text='Path emission equals root?/prefix(n)/segments for every n in 1..=255 (cells), empty paths are refused; Path::new derives rootedness and segments as specified and the 4-byte assertion precedes every store.',
   note='str::split / starts_with are uninterpreted functions of the input; character alphabet not validated (not required).'),
 'C16': dict(cat='other', ref='DESIGN 3 C16', technique='abstract interpretation of the two constructors on a symbolic string (bytes, interpreted hexadecimal digits) compared with the specification packing field by field by the term decision procedure; refusals compared as conditions: every required one present, none beyond the specification',
   text='EISAName::new stores exactly swap_bytes of the specified 5/5/5/4/4/4/4-bit packing (term identity under valid-character ranges) and emits it as an integer constant; Uuid::new produces the 16 bytes of the mixed-endian map and emits them as a Buffer; all refusing assertions/unwraps (length, dashes, hex digits) are present on the only path to the value.',
   note='char::to_digit modelled by its std contract; ASCII input assumed for char/byte index agreement.'),

 'C10': dict(cat='other', ref='DESIGN 3 C10', technique='abstract interpretation: emission shape of constructor(args) vs descriptor production; length-field vs size of following segments',
   text='All 14 descriptor constructors (fixed memory, I/O, extended interrupt, register, word/dword/qword address space x memory/io/bus) and the template wrapper equal their ACPI 6.4 productions over the constructor parameters; independently each descriptor\'s length field equals the symbolic size of what follows it, so a length-walk tiles any template.',
   note='Trusted: my production table; min <= max and range-size overflow are caller preconditions / C18.'),
 'C15': dict(cat='proof', ref='DESIGN 3 C15', technique='interval-write analysis with symbolic endpoints (Scope::raw), effect summaries (PackageBuilder), emission-shape identity (strings, usize/u64)',
   text='Scope::raw resolves, for every prefix width m >= 1 symbolically, to ScopeOp ++ PkgLength(n-1) ++ path ++ children, identical to impl Aml for Scope; PackageBuilder::new/add_element keep (bytes = concatenated children, counter = count) and its emission equals Package\'s under that relation; &str/String and usize/u64 have identical shapes.',
   note='copy_within/copy_from_slice/resize modelled as interval writes per the std contract.'),

 'C03': dict(cat='other', ref='DESIGN 3 C03', technique='abstract interpretation: tagged specification segments (type/len/count/offset) vs emission shape; inductive count invariants; vector-append rule; element-append rule for entry structures',
   text='For 43 entry constructors the type code and length-of-self fields equal the specification constant and the symbolic size of the entry\'s own emission; 15 count fields equal the number of repeated elements (stored counts by induction over the API); array offsets equal array positions; each of the 12 variable-body tables serialises as header ++ fixed part of the specified size ++ its entry vector, and all 29 add operations append exactly their argument at the end. Two recorded findings (RDPAS, RINTC affinity).',
   note='Tags come from spec/layouts.py; with C02 the walk by entry lengths tiles the image.'),
 'C04': dict(cat='translation_validation', ref='DESIGN 3 C04', technique='translation-validation-style comparison of the emission shape of constructor(args) with a specification-derived layout; setter placement via symbolic receiver; rustc field offsets; setter effects; bit-packing side conditions under dominating refusals; constructor-to-field wiring',
   text='68 structures (all tables and entry types) are compared field by field - offset, width, little-endian, source parameter, constants, reserved values, derived values - with independently written layouts; 100+ setter-filled fields are located through the serialiser on a symbolic receiver; packed-struct offsets from rustc are compared with the specification for FADT (64 fields), GAS, the table header and the TCPA server table. Three recorded findings share two roots (GenericErrorData section type, RINTC affinity).',
   note='The oracle is my reading of the specifications (RIMT pinned to today\'s tree); validity of caller values is out of scope.'),
 'C11': dict(cat='other', ref='DESIGN 3 C11', technique='effect summaries (write set + update term) of every builder by abstract interpretation vs bit table - on the state field, or on the emitted field when the state derives it at serialisation time; enum discriminants vs specification values; contradiction rule',
   text='Every by-value/&mut-self method of 18 builder-bearing types is summarised on a symbolic receiver: 48 options write exactly their own fields with the specification mask (|= commutes, so subsets/orders/repetitions follow), 60+ plain setters write exactly the field of their name, constructor-time options and serialisation-time flag helpers match, 165 enum variants carry the specification value, and no two options of one structure or the same constant into one field.',
   note='Bit tables are my reading of ACPI/TCG/CXL/RISC-V documents; pub fields can be written directly by callers.'),
 'C12': dict(cat='other', ref='DESIGN 3 C12', technique='store-index normal form on symbolic states vs row-major specification; constructor fill; emission order',
   text='HMAT: one store at i*len(targets)+j, I*T cells of 0xFFFF, row-major emission; SLIT: stores exactly at a+N*b and b+N*a, N*N cells of 10, emission in index order; no other writers. Last-value-wins then follows from Vec element-store semantics; the checksum clause is C01\'s.',
   note='Index arithmetic overflow is a C18 site.'),
 'C13': dict(cat='proof', ref='DESIGN 3 C13', technique='interval-write summaries of every Sdt operation vs the byte-vector model; guard-before-mutation ordering on the evaluation log; image sums to zero with byte 9 written last; refusals compared as conditions; normal form of the resulting image; sink entry points; callers-of rule for private writers',
   text='All 14 public operations (typed variants expanded) have exactly the model\'s effective writes plus the checksum byte, end in the zero/sum/store sequence with nothing after it, and evaluate their bounds assertion before any mutation; only five primitives write the image; new lays out the standard header; len >= 36 is inductive.',
   note='Vec/slice primitives modelled per std contract; tables < 4 GiB.'),
 'C14': dict(cat='other', ref='DESIGN 3 C14', technique='purity/effect rules over the typed program; sink-use rule; sink-method agreement and raw-vs-serialised identity by abstract evaluation; generic decision of in-crate sink kinds (byte store / byte sum / byte counter / generic table)',
   text='No statics, interior mutability or hand-written unsafe exist and serialisers take &self; all 152 serialisers evaluate with no unknown callee; all 581 uses of a sink value are receiver-of-the-five-methods or forwarding; the four default methods and every override of the four in-crate sinks deliver exactly the little-endian bytes in order; for the 31 types that are both IntoBytes and Aml the emission equals the layout bytes.',
   note='Foreign sinks/types are out of reach; little-endian target.'),

 'C18': dict(cat='other', ref='DESIGN 3 C18', technique='value-range analysis (abstract interpretation with guards as dominating facts and private-field invariants) over every narrowing cast, overflow-prone arithmetic, discarding mask and wrapping op; MIR site cross-check; worst-context site classification; refusal must be false on the whole oversize cell',
   text='Every serialiser (152, on symbolic receivers) and every public function (300+, on symbolic arguments) is scanned: each narrowing cast, + - *, lossy mask or emitted wrapping op whose operand range is not proven to fit by a dominating guard is classified capacity-bounded / plain value / index-only (informational) or unguarded (violation). The site set is cross-checked against rustc\'s MIR narrowing casts and overflow assertions, which exist only with overflow checks on - so what is left unguarded is exactly what would wrap in release. 37 unguarded sites found on the original tree were repaired by fix: commits.',
   note='Capacity rule: >= 32-bit totals of sizes of objects that already exist in memory (>= 4 GiB images) are informational.'),
}
NOT_YET = 'check not built yet (build in progress; design in DESIGN.md section 3)'

def main():
    props = [json.loads(l) for l in open(os.path.join(HERE, 'properties.jsonl'))]
    have = {f[:-3] for f in os.listdir(os.path.join(HERE, 'rules')) if f.startswith('C') and f.endswith('.py')}
    checks = []; na = []
    for p in props:
        pid = p['id']
        if pid in CLAIMS and pid in have:
            c = CLAIMS[pid]
            checks.append({'property_id': pid, 'quick_cmd': './check %s' % pid, 'thorough_cmd': './check %s --tier thorough' % pid,
                           'evidence_file': 'evidence/%s.json' % pid, 'replay_cmd_template': './check %s --replay {path}' % pid,
                           'engine': 'engine', 'technique': c['technique'],
                           'level_claimed': {'category': c['cat'], 'text': c['text'], 'design_ref': c['ref']}, 'level_note': c['note']})
        else:
            na.append({'property_id': pid, 'reason': NA.get(pid, NOT_YET)})
    m = {'version': 1, 'setup_cmd': './setup.sh',
         'hooks': {'guard': 'rust_vmm_acpi_tables_verif', 'enable': 'no hook code exists: the checks read the type-checked program of /repo as built by `cargo +nightly check` with the repository\'s own flags (RUSTC_WORKSPACE_WRAPPER=tools/afx)',
                   'baseline_off_cmd': 'cd /repo && cargo test --workspace --no-fail-fast --offline', 'source_commits': [], 'add_only': True},
         'engines': [{'name': 'afx', 'path': 'tools/afx', 'serves_properties': sorted(CLAIMS), 'kind_free_text': 'rustc_private driver: dumps typed THIR, resolved callees, layouts, evaluated constants, MIR overflow/cast sites'},
                     {'name': 'engine', 'path': 'engine', 'serves_properties': sorted(CLAIMS), 'kind_free_text': 'Python abstract interpreter over the THIR facts (symbolic term / emission-shape / byte-sum domains) + rule modules in rules/'}],
         'checks': checks, 'not_applicable': na,
         'notes': 'Static analysis only: nothing here runs the crate, its tests, a fuzzer or a solver. The thorough tier adds a release-like extraction (profile independence), type-level compile_fail witnesses, clippy/MIR cross-enumeration (C18) and a perturbation audit of the extracted program (engine/perturb.py). See DESIGN.md, section 8.'}
    json.dump(m, open(os.path.join(HERE, 'MANIFEST.json'), 'w'), indent=1)
    print('MANIFEST: %d checks, %d not_applicable' % (len(checks), len(na)))

NA = {}
if __name__ == '__main__':
    main()
