#!/bin/sh
# run every claimed check (quick tier) against /repo, refreshing evidence/
cd /verif
for id in $(python3 -c "import json;print(' '.join(c['property_id'] for c in json.load(open('MANIFEST.json'))['checks']))"); do
  ./check $id 2>&1 | grep "^C[0-9]\|VIOLATION\|KNOWN" | cut -c1-200
done
python3-vt - <<'PY'
import json,jsonschema,os
s=json.load(open('/root/.vp/EVIDENCE.schema.json')); m=json.load(open('/verif/MANIFEST.json'))
for c in m['checks']:
    e=json.load(open('/verif/'+c['evidence_file'])); jsonschema.validate(e,s)
    assert e['level']==c['level_claimed']['category'], (c['property_id'], e['level'], c['level_claimed']['category'])
print('evidence valid and levels consistent for', len(m['checks']), 'checks')
PY
