#!/usr/bin/env python3
"""Rewrites the table of section 8.6 of DESIGN.md from seeded/*/meta.json."""
import json, os, glob, re
ROOT = os.path.dirname(os.path.dirname(os.path.abspath(__file__)))
rows = []
for m in sorted(glob.glob(os.path.join(ROOT, 'seeded', '*', 'meta.json'))):
    d = json.load(open(m))
    notes = d.get('needs_to_manifest', '')
    first = ''
    for line in notes.splitlines():
        line = line.strip(' #*-')
        if len(line) > 25 and not line.lower().startswith(('notes', 'change', 'c0', 'c1')): first = line; break
    rows.append('| %s | %s | %s | %s | %s |' % (d['name'], d['property'], 'yes' if d.get('confirmed') else 'NO', ', '.join(sorted(d.get('checks_reporting', {}))) or '-', (first[:150]).replace('|', '/')))
tbl = '| change | breaks | confirmed | reported by | what it is (first line of the author\'s notes) |\n|---|---|---|---|---|\n' + '\n'.join(rows) + '\n'
p = os.path.join(ROOT, 'DESIGN.md'); t = open(p).read()
t = re.sub(r'<!-- SEEDED-TABLE-BEGIN -->.*<!-- SEEDED-TABLE-END -->', '<!-- SEEDED-TABLE-BEGIN -->\n' + tbl + '<!-- SEEDED-TABLE-END -->', t, flags=re.S)
open(p, 'w').write(t)
print(len(rows), 'rows')
