#!/bin/sh
# usage: run_afx.sh <crate-dir> <out-dir> [extra RUSTFLAGS]
# Runs the fact extractor over the crate in <crate-dir>; dependencies are cached in
# /verif/.cache/target, the member crate's fingerprint is removed first so the wrapper
# always runs (cargo's freshness cache would otherwise skip it silently).
set -e
DIR="$1"; OUT="$2"; EXTRA="$3"
mkdir -p "$OUT"
TD="${AFX_TARGET_DIR:-/verif/.cache/target}"
mkdir -p "$TD"
rm -rf "$TD"/debug/.fingerprint/acpi_tables-* "$TD"/debug/.fingerprint/badacpi-* 2>/dev/null || true
rm -f "$OUT"/*.facts.json
SYSROOT=$(rustc +nightly --print sysroot)
cd "$DIR"
LD_LIBRARY_PATH="$SYSROOT/lib" RUSTFLAGS="-Awarnings $EXTRA" \
  RUSTC_WORKSPACE_WRAPPER=/verif/tools/afx/target/release/afx AFX_OUT="$OUT" \
  CARGO_TARGET_DIR="$TD" CARGO_NET_OFFLINE=true \
  cargo +nightly check --offline --lib 2>&1
